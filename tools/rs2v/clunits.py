"""rs2v unit Clir: the Cranelift IR that src/cranelift.rs builds, as Gallina terms over the IR value
semantics of theories/ClirSem.v.  Builder code is straight-line: `let x = bcx.ins().OP(args)`,
`bcx.use_var(self.V)`, helper methods of the compiler (inlined), `bcx.def_var`, `trapz`."""
import os
import rsparse as R
from rsparse import Unsupported
from rsemit import show
import units as U

IR_TYPES = {'I8': 8, 'I16': 16, 'I32': 32, 'I64': 64}
CC = {'IntCC::Equal': 'CEq', 'IntCC::NotEqual': 'CNe', 'IntCC::UnsignedGreaterThanOrEqual': 'CUge', 'IntCC::UnsignedGreaterThan': 'CUgt',
      'IntCC::UnsignedLessThanOrEqual': 'CUle', 'IntCC::UnsignedLessThan': 'CUlt', 'IntCC::SignedGreaterThanOrEqual': 'CSge',
      'IntCC::SignedGreaterThan': 'CSgt', 'IntCC::SignedLessThanOrEqual': 'CSle', 'IntCC::SignedLessThan': 'CSlt'}
BIN = ('iadd', 'isub', 'imul', 'band', 'bor', 'bxor', 'udiv', 'urem', 'ishl', 'ushr', 'sshr')


class IrTr:
    """translates builder statements; values are (coq term, width in bits)"""

    def __init__(self, toks, scalars):
        self.toks = toks
        self.env = {}
        self.scalars = dict(scalars)      # rust scalar parameter -> (coq term, rust type)
        self.lets = []                    # (name, term)
        self.n = 0

    def fresh(self, base):
        self.n += 1
        return '%s_%d' % (base, self.n)

    def bind(self, name, term, w):
        v = self.fresh(name.lstrip('_') or 'v')
        self.lets.append((v, term))
        self.env[name] = (v, w)
        return v

    def scalar(self, e):
        """a Rust-level integer expression of the builder (constants of the instruction being translated)"""
        while e[0] == 'paren':
            e = e[1]
        if e[0] == 'num':
            return str(e[1])
        if e[0] == 'path' and e[1] in self.scalars:
            return self.scalars[e[1]][0]
        if e[0] == 'as':
            inner = self.scalar(e[1])
            tn = R.tyname(e[2])
            m = {'i64': 'I64', 'u64': 'U64', 'i32': 'I32', 'u32': 'U32', 'i16': 'I16', 'u8': 'U8'}
            if tn not in m:
                raise Unsupported("cast to %s in builder code" % tn)
            return '(cast %s %s)' % (m[tn], inner)
        if e[0] == 'mcall' and e[2] == 'bytes' and show(e[1]) in self.scalars:
            return self.scalars[show(e[1])][0]
        if e[0] == 'field' and show(e) in self.scalars:
            return self.scalars[show(e)][0]
        raise Unsupported("builder scalar %s" % show(e)[:60])

    def width(self, e):
        s = show(e)
        if s in IR_TYPES:
            return IR_TYPES[s]
        if s in ('self.isa.pointer_type()',):
            return 64
        raise Unsupported("IR type %s" % s)

    def value(self, e):
        """IR value expression -> (term, width)"""
        while e[0] == 'paren':
            e = e[1]
        if e[0] == 'path' and e[1] in self.env:
            return self.env[e[1]]
        if e[0] == 'mcall' and show(e[1]) == 'bcx' and e[2] == 'use_var':
            a = e[3][0]
            if a[0] == 'field' and show(a[1]) == 'self':
                return '(v_%s V)' % a[2], 64
            raise Unsupported("use_var of %s" % show(a))
        if e[0] == 'mcall' and e[1][0] == 'mcall' and show(e[1][1]) == 'bcx' and e[1][2] == 'ins':
            op, args = e[2], e[3]
            if op == 'iconst':
                w = self.width(args[0])
                return '(ir_iconst %d %s)' % (w, self.scalar(args[1])), w
            if op in BIN:
                a, wa = self.value(args[0])
                b, wb = self.value(args[1])
                if op not in ('ishl', 'ushr', 'sshr') and wa != wb:
                    raise Unsupported("%s on different widths" % op)
                return '(ir_%s %d %s %s)' % (op, wa, a, b), wa
            if op == 'icmp':
                cc = show(args[0])
                if cc not in CC:
                    raise Unsupported("condition code %s" % cc)
                a, wa = self.value(args[1])
                b, wb = self.value(args[2])
                if wa != wb:
                    raise Unsupported("icmp on different widths")
                return '(ir_icmp %s %d %s %s)' % (CC[cc], wa, a, b), 8
            if op == 'icmp_imm':
                cc = show(args[0])
                a, wa = self.value(args[1])
                return '(ir_icmp %s %d %s (ir_iconst %d %s))' % (CC[cc], wa, a, wa, self.scalar(args[2])), 8
            if op == 'select' and type(self) is IrTr:
                c, wc = self.value(args[0])
                a, wa = self.value(args[1])
                b, wb = self.value(args[2])
                if wa != wb:
                    raise Unsupported("select on different widths")
                return '(ir_select %s %s %s)' % (c, a, b), wa
            raise Unsupported("IR instruction %s" % op)
        raise Unsupported("IR value %s" % show(e)[:60])

    def wrap(self, body):
        out = body
        for v, t in reversed(self.lets):
            out = 'let %s := %s in\n  %s' % (v, t, out)
        return out


def gen_clir(src_dir):
    toks = U.load(src_dir, 'cranelift.rs')
    out = [U.HDR % 'src/cranelift.rs (insert_bounds_check; the bounds variables of the prelude; the accesses behind reg_load / reg_store / reg_atomic_add)',
           "From RbpfV Require Import ClirSem.\n\n"]
    # --- insert_bounds_check(bcx, ty, base, offset)
    sig, body = R.parse_fn(toks, 'insert_bounds_check')
    sigtxt = ' '.join(t[1] for t in sig)
    if 'ty : Type , base : Value , offset : i16' not in sigtxt:
        raise Unsupported("signature of insert_bounds_check: %s" % sigtxt)
    tr = IrTr(toks, {'ty': ('ty_bytes', 'u32'), 'offset': ('offset', 'i16')})
    tr.env['base'] = ('base', 64)
    result = None
    for st in body[1]:
        if st[0] == 'let' and st[1][0] == 'ppath':
            name = st[1][1]
            t, w = tr.value(st[3])
            if name in tr.scalars:
                del tr.scalars[name]          # from here on the name denotes the IR value (`let offset = iconst(.., offset as i64)`)
            tr.bind(name, t, w)
            continue
        if st[0] in ('stmt', 'tail'):
            e = st[1]
            if e[0] == 'mcall' and e[1][0] == 'mcall' and e[1][2] == 'ins' and e[2] == 'trapz':
                if result is not None:
                    raise Unsupported("insert_bounds_check: more than one trap")
                v, w = tr.value(e[3][0])
                result = '(ir_trapz %s)' % v
                continue
        raise Unsupported("insert_bounds_check: statement at line %s" % (st[2] if len(st) > 2 else st[4]))
    if result is None:
        raise Unsupported("insert_bounds_check: no trapz")
    out.append("(* true = execution continues, false = trap HEAP_OUT_OF_BOUNDS *)\n"
               "Definition gen_bounds_check (V : clvars) (ty_bytes base offset : Z) : bool :=\n  %s.\n\n" % tr.wrap(result))
    # --- prelude: how the bounds variables are defined from the function parameters
    sig, body = R.parse_fn(toks, 'build_function_prelude')
    tr = IrTr(toks, {})
    defs = {}
    regdefs = {}
    params = {}
    for st in body[1]:
        if st[0] == 'let' and st[1][0] == 'ppath' and st[3] is not None:
            e = st[3]
            name = st[1][1]
            if e[0] == 'index' and e[1][0] == 'mcall' and e[1][2] == 'block_params' and e[2][0] == 'num':
                tr.env[name] = ('p%d' % e[2][1], 64)
                params[name] = e[2][1]
                continue
            if e[0] == 'mcall' and e[1][0] == 'mcall' and e[1][2] == 'ins' and e[2] == 'stack_addr':
                off = e[3][2]
                offv = 'stack_size' if 'STACK_SIZE' in show(off) else str(tr.scalar(off))
                tr.env[name] = ('(ir_iadd 64 stack_slot (ir_iconst 64 %s))' % offv, 64)
                continue
            try:
                t, w = tr.value(e)
                tr.env[name] = (t, w)
            except Unsupported:
                pass
            continue
        if st[0] == 'stmt' and st[1][0] == 'mcall' and st[1][2] == 'def_var' and show(st[1][1]) == 'bcx':
            tgt, val = st[1][3]
            if tgt[0] == 'field' and show(tgt[1]) == 'self' and tgt[2] in ('mem_start', 'mem_end', 'mbuf_start', 'mbuf_end', 'stack_start', 'stack_end'):
                t, w = tr.value(val)
                defs[tgt[2]] = t
            if tgt[0] == 'index' and show(tgt[1]).replace(' ', '') == 'self.registers' and tgt[2][0] == 'num':
                t, w = tr.value(val)
                if tgt[2][1] in regdefs:
                    raise Unsupported("prelude: register %d defined twice" % tgt[2][1])
                regdefs[tgt[2][1]] = t
    need = ['stack_start', 'stack_end', 'mem_start', 'mem_end', 'mbuf_start', 'mbuf_end']
    if sorted(defs) != sorted(need):
        raise Unsupported("prelude: bounds variables defined: %s" % sorted(defs))
    out.append("(* p0..p3 = the compiled function's parameters (mem ptr, mem len, mbuf ptr, mbuf len); stack_slot = address of the 512-byte slot *)\n"
               "Definition gen_prelude_vars (p0 p1 p2 p3 stack_slot stack_size : Z) : clvars :=\n  {| %s |}.\n\n"
               % '; '.join('v_%s := %s' % (k, defs[k]) for k in need))
    # the eBPF registers the prelude defines (the others are declared only: Cranelift reads an undefined variable as 0)
    out.append("(* registers defined by the prelude: (eBPF register, value) *)\n"
               "Definition gen_prelude_regs (p0 p1 p2 p3 stack_slot stack_size : Z) : list (Z * Z) :=\n  [%s].\n\n"
               % '; '.join('(%d, %s)' % (k, regdefs[k]) for k in sorted(regdefs)))
    # --- the three access helpers: the check comes first and uses the same type, base and offset as the access
    for fn, acc in (('reg_load', 'load'), ('reg_store', 'store'), ('reg_atomic_add', 'atomic_rmw')):
        sig, body = R.parse_fn(toks, fn)
        sts = body[1]
        first = sts[0]
        ok = (first[0] == 'stmt' and first[1][0] == 'mcall' and first[1][2] == 'insert_bounds_check'
              and [show(a) for a in first[1][3]] == ['bcx', 'ty', 'base', 'offset'])
        if not ok:
            raise Unsupported("%s: the first statement is not self.insert_bounds_check(bcx, ty, base, offset)" % fn)
        found = None

        def walk(e):
            nonlocal found
            if isinstance(e, tuple) and e and e[0] == 'mcall' and e[2] == acc and e[1][0] == 'mcall' and e[1][2] == 'ins':
                found = e
            if isinstance(e, (tuple, list)):
                for x in e:
                    walk(x)
        walk(sts[1:])
        if found is None:
            raise Unsupported("%s: no %s instruction" % (fn, acc))
        args = [show(a).replace(' ', '') for a in found[3]]
        if acc == 'load':
            shape = (args[0], args[2], args[3])
        elif acc == 'store':
            shape = ('ty', args[2], args[3])      # the stored value has the access type (checked by Cranelift's verifier)
        else:
            # atomic_rmw(ty, flags, op, addr, val) with addr = iadd(base, iconst(offset as i64))
            addr_def = None
            for st in sts:
                if st[0] == 'let' and st[1][0] == 'ppath' and st[1][1] == args[3]:
                    addr_def = show(st[3]).replace(' ', '')
            off_def = None
            for st in sts:
                if st[0] == 'let' and st[1][0] == 'ppath' and st[1][1] == 'off':
                    off_def = show(st[3]).replace(' ', '')
            shape = (args[0], 'base' if addr_def == 'bcx.ins().iadd(base,off)' else '?%s' % addr_def,
                     'offsetasi32' if off_def and off_def.startswith('bcx.ins().iconst(') and off_def.rstrip(')').endswith('offsetasi64') else '?%s' % off_def)
            if args[2] != 'AtomicRmwOp::Add':
                shape = ('?op',) + shape[1:]
        norm = (shape[0], shape[1], shape[2].replace('asi32', '').replace('(', '').replace(')', ''))
        out.append('Definition gen_%s_access : string * string * string := ("%s", "%s", "%s")%%string.\n' % (fn, norm[0], norm[1], norm[2]))
    out.append('\n')
    return ''.join(out).replace("From RbpfV Require Import ClirSem.", "From Coq Require Import String.\nFrom RbpfV Require Import ClirSem.")


# ------------------------------------------------------------------ src/jit.rs: bookkeeping of jump targets

def gen_jitlogic(src_dir):
    from rsemit import Emitter
    env, _ = U.read_consts(src_dir)
    toks = U.load(src_dir, 'jit.rs')
    out = [U.HDR % 'src/jit.rs (jump-target bookkeeping of jit_compile / resolve_jumps, the register map)', "From RbpfV Require Import Ebpf.\n\n"]
    _, body = R.parse_fn(toks, 'jit_compile')
    found = {'target_pc': [], 'pc_locs': []}

    def walk(e):
        if isinstance(e, tuple) and e and e[0] == 'let' and e[1][0] == 'ppath' and e[1][1] == 'target_pc':
            found['target_pc'].append(e[3])
        if isinstance(e, tuple) and e and e[0] == 'assign' and show(e[2]) == 'self.pc_locs':
            found['pc_locs'].append(e[3])
        if isinstance(e, (tuple, list)):
            for x in e:
                walk(x)
    walk(body)
    if len(found['target_pc']) != 2 or len(found['pc_locs']) != 1:
        raise Unsupported("jit_compile: expected two `let target_pc = ..` and one `self.pc_locs = ..` (found %d, %d)"
                          % (len(found['target_pc']), len(found['pc_locs'])))
    leaves = {'insn_ptr': ('insn_ptr', 'USZ')}
    leaves.update(U.insn_leaves('insn', 'insn'))
    names = {'insn.off': 'gen_jit_jump_target', 'insn.imm': 'gen_jit_call_target'}
    seen = set()
    for e in found['target_pc']:
        txt = show(e)
        key = 'insn.off' if 'insn.off' in txt else 'insn.imm' if 'insn.imm' in txt else None
        if key is None or key in seen:
            raise Unsupported("jit_compile: target_pc expression %s" % txt)
        seen.add(key)
        em = Emitter(env, leaves)
        t, ty = em.expr(e)
        if ty != 'ISZ':
            raise Unsupported("target_pc has type %s" % ty)
        out.append("Definition %s (insn_ptr : Z) (insn : insn) : res Z :=\n  %s.\n\n" % (names[key], Emitter.wrap_binds(em.take_binds(), 'Ok %s' % t)))
    e = found['pc_locs'][0]
    if e[0] != 'macro' or e[1] != 'vec':
        raise Unsupported("pc_locs initialiser")
    groups = []
    cur = []
    for tk in e[2]:
        if tk[0] == 'op' and tk[1] == ';':
            groups.append(cur)
            cur = []
        else:
            cur.append(tk)
    groups.append(cur)
    if len(groups) != 2:
        raise Unsupported("pc_locs: vec![x; n] expected")
    n_ast = R.Parser(groups[1] + [('eof', '', None, -1)]).expr()
    em = Emitter(env, {})
    U.get_insn_hook(em)
    t, ty = em.expr(n_ast)
    out.append("Definition gen_jit_pc_locs_len (prog : list Z) : res Z :=\n  %s.\n\n" % Emitter.wrap_binds(em.take_binds(), 'Ok %s' % t))
    # resolve_jumps: the only indexing of pc_locs by a jump target
    _, body = R.parse_fn(toks, 'resolve_jumps')
    idx = []

    def walk2(e):
        if isinstance(e, tuple) and e and e[0] == 'index' and show(e[1]) == 'self.pc_locs':
            idx.append(e[2])
        if isinstance(e, (tuple, list)):
            for x in e:
                walk2(x)
    walk2(body)
    if len(idx) != 1:
        raise Unsupported("resolve_jumps: expected one indexing of self.pc_locs")
    em = Emitter(env, {'jump.target_pc': ('target_pc', 'ISZ')})
    t, ty = em.expr(idx[0])
    if em.binds or ty != 'USZ':
        raise Unsupported("resolve_jumps: index expression")
    out.append("Definition gen_jit_resolve_index (target_pc : Z) : Z :=\n  %s.\n\n" % t)
    # resolve_jumps: the 32-bit displacement written at jump.offset_loc
    lets = {}

    def walk3(e):
        if isinstance(e, tuple) and e and e[0] == 'let' and e[1][0] == 'ppath' and e[1][1] in ('offset_loc', 'rel'):
            lets[e[1][1]] = e[3]
        if isinstance(e, (tuple, list)):
            for x in e:
                walk3(x)
    walk3(body)
    if sorted(lets) != ['offset_loc', 'rel']:
        raise Unsupported("resolve_jumps: offset_loc / rel not found")
    rel = lets['rel']
    while rel[0] in ('as', 'ref', 'paren'):
        rel = rel[1]
    em = Emitter(env, {'jump.offset_loc': ('jump_offset_loc', 'USZ'), 'target_loc': ('target_loc', 'USZ')})
    orig_e = em.expr

    def expr_sz(e, expect=None):
        if e[0] == 'call' and show(e[1]).startswith('core::mem::size_of::<i32>'):
            return '4', 'USZ'
        return orig_e(e, expect)
    em.expr = expr_sz
    t1, ty1 = em.expr(lets['offset_loc'])
    b1 = em.take_binds()
    em.locals['offset_loc'] = ('offset_loc', ty1)
    t2, ty2 = em.expr(rel)
    b2 = em.take_binds()
    if ty1 != 'I32' or ty2 != 'I32':
        raise Unsupported("resolve_jumps: displacement types %s %s" % (ty1, ty2))
    out.append("Definition gen_jit_rel32 (jump_offset_loc target_loc : Z) : res Z :=\n  %s.\n\n"
               % Emitter.wrap_binds(b1, '(let offset_loc := %s in %s)' % (t1, Emitter.wrap_binds(b2, 'Ok %s' % t2))))
    # REGISTER_MAP
    i = 0
    regs = None
    while i < len(toks) - 3:
        if toks[i][1] == 'const' and toks[i + 1][1] == 'REGISTER_MAP':
            j = i
            while toks[j][1] != '=':
                j += 1
            k = R.find_matching(toks, j + 1)
            names_ = [t_[1] for t_ in toks[j + 2:k] if t_[0] == 'id']
            regs = names_
            break
        i += 1
    if regs is None:
        raise Unsupported("REGISTER_MAP not found")
    consts = {}
    for name, ty, e_, line in R.consts(toks):
        try:
            consts[name] = U.eval_const(e_, {})
        except Unsupported:
            pass
    try:
        vals = [consts[r] for r in regs]
    except KeyError as ex:
        raise Unsupported("REGISTER_MAP entry %s" % ex)
    out.append("Definition gen_register_map : list Z := [%s].\n" % '; '.join(str(v) for v in vals))
    out.append("Definition gen_jit_scratch : list Z := [%s].   (* RCX, R10, R11, RSP: used by the emitted code itself *)\n"
               % '; '.join(str(consts[r]) for r in ('RCX', 'R10', 'R11', 'RSP')))
    return ''.join(out)


# ------------------------------------------------------------------ src/cranelift.rs: the IR of the ALU arms of translate_program

TRAPPING = ('udiv', 'urem')
UN = ('ineg', 'bswap')
EXT = ('ireduce', 'uextend', 'sextend')


class ArmTr(IrTr):
    """one arm of translate_program: value of the destination register after the arm (None = not redefined),
    in the `res` monad because udiv / urem trap on a zero divisor"""

    def __init__(self, toks, consts):
        IrTr.__init__(self, toks, {})
        self.consts = consts
        self.depth = 0

    def cond(self, e):
        """Rust-level condition on the instruction being compiled"""
        while e[0] == 'paren':
            e = e[1]
        if e[0] == 'bin' and e[1] in ('==', '!='):
            a, b = self.scal(e[2]), self.scal(e[3])
            t = '(%s =? %s)' % (a, b)
            return t if e[1] == '==' else '(negb %s)' % t
        raise Unsupported("arm condition %s" % show(e)[:60])

    def scal(self, e):
        while e[0] == 'paren':
            e = e[1]
        if e[0] == 'num':
            return str(e[1])
        if e[0] == 'field' and show(e[1]) == 'insn' and e[2] in ('imm', 'off', 'dst', 'src'):
            return '(%s insn)' % e[2]
        if e[0] == 'as':
            tn = R.tyname(e[2])
            m = {'i64': 'I64', 'u64': 'U64', 'i32': 'I32', 'u32': 'U32', 'i16': 'I16', 'u8': 'U8', 'usize': 'USZ'}
            if tn not in m:
                raise Unsupported("cast to %s" % tn)
            return '(cast %s %s)' % (m[tn], self.scal(e[1]))
        raise Unsupported("arm scalar %s" % show(e)[:60])

    scalar = scal

    def value(self, e):
        while e[0] == 'paren':
            e = e[1]
        if e[0] == 'path' and e[1] in self.env:
            return self.env[e[1]]
        if e[0] == 'mcall' and show(e[1]) == 'bcx' and e[2] == 'use_var':
            a = e[3][0]
            s = show(a).replace(' ', '').replace('(', '').replace(')', '')
            if s == 'self.registers[insn.dstasusize]':
                return 'rdst', 64
            if s == 'self.registers[insn.srcasusize]':
                return 'rsrc', 64
            raise Unsupported("use_var of %s" % s)
        if e[0] == 'mcall' and show(e[1]) == 'self' and e[3] and show(e[3][0]) == 'bcx':
            return self.inline_value(e[2], e[3][1:])
        if e[0] == 'mcall' and e[1][0] == 'mcall' and show(e[1][1]) == 'bcx' and e[1][2] == 'ins':
            op, args = e[2], e[3]
            if op == 'iconst':
                w = self.width(args[0])
                return '(ir_iconst %d %s)' % (w, self.scal(args[1])), w
            if op in BIN and op not in TRAPPING:
                a, wa = self.value(args[0])
                b, wb = self.value(args[1])
                return '(ir_%s %d %s %s)' % (op, wa, a, b), wa
            if op in TRAPPING:
                a, wa = self.value(args[0])
                b, wb = self.value(args[1])
                v = self.fresh('q')
                self.lets.append((v, '(ir_%s %d %s %s)' % (op, wa, a, b), 'bind'))
                return v, wa
            if op in UN:
                a, wa = self.value(args[0])
                return '(ir_%s %d %s)' % (op, wa, a), wa
            if op in EXT:
                w = self.width(args[0])
                a, wa = self.value(args[1])
                return '(ir_%s %d %d %s)' % (op, wa, w, a), w
            if op == 'icmp':
                cc = show(args[0])
                a, wa = self.value(args[1])
                b, wb = self.value(args[2])
                return '(ir_icmp %s %d %s %s)' % (CC[cc], wa, a, b), 8
            if op == 'select':
                c, _ = self.value(args[0])
                a, wa = self.value(args[1])
                b, wb = self.value(args[2])
                if wa != wb:
                    raise Unsupported("select on different widths")
                return '(ir_select %s %s %s)' % (c, a, b), wa
            raise Unsupported("IR instruction %s" % op)
        raise Unsupported("IR value %s" % show(e)[:60])

    def method(self, name):
        sig, body = R.parse_fn(self.toks, name)
        params = []
        depth = 0
        cur = []
        started = False
        for t in sig:
            if t[1] == '(':
                depth += 1
                started = True
                continue
            if t[1] == ')':
                depth -= 1
                if depth == 0:
                    break
            if started and depth == 1:
                if t[1] == ',':
                    params.append(cur)
                    cur = []
                else:
                    cur.append(t[1])
        if cur:
            params.append(cur)
        names = [p[0] if p[0] not in ('&', 'mut') else p[-1] for p in params]
        names = [p[p.index(':') - 1] if ':' in p else 'self' for p in params]
        return names, body

    def inline_value(self, name, args):
        """self.NAME(bcx, &insn, extra IR values..) used as a value"""
        self.depth += 1
        if self.depth > 4:
            raise Unsupported("helper nesting")
        names, body = self.method(name)
        extra = names[3:] if len(names) > 3 else []
        saved = dict(self.env)
        for n, a in zip(extra, args[1:]):
            self.env[n] = self.value(a)
        r = None
        for st in body[1]:
            if st[0] == 'let' and st[1][0] == 'ppath':
                t, w = self.value(st[3])
                self.env[st[1][1]] = (t, w)
            elif st[0] == 'tail':
                r = self.value(st[1])
            else:
                raise Unsupported("helper %s: statement" % name)
        self.env = saved
        self.depth -= 1
        if r is None:
            raise Unsupported("helper %s has no value" % name)
        return r

    def set_dst(self, name, args):
        """self.set_dst / set_dst32 (bcx, &insn, val) -> the value stored in the destination register"""
        names, body = self.method(name)
        saved = dict(self.env)
        self.env[names[3]] = self.value(args[2])
        out = None
        for st in body[1]:
            if st[0] == 'let' and st[1][0] == 'ppath':
                self.env[st[1][1]] = self.value(st[3])
            elif st[0] in ('stmt', 'tail') and st[1][0] == 'mcall' and show(st[1][1]) == 'self' and st[1][2].startswith('set_dst'):
                out = self.set_dst(st[1][2], st[1][3])
            elif st[0] in ('stmt', 'tail') and st[1][0] == 'mcall' and show(st[1][1]) == 'bcx' and st[1][2] == 'def_var':
                tgt, val = st[1][3]
                if show(tgt).replace(' ', '').replace('(', '').replace(')', '') != 'self.registers[insn.dstasusize]':
                    raise Unsupported("def_var of %s" % show(tgt))
                out = self.value(val)
            else:
                raise Unsupported("%s: statement" % name)
        self.env = saved
        if out is None:
            raise Unsupported("%s defines nothing" % name)
        return out

    def block_value(self, blk):
        """{ lets; tail value } -> (term, width) with its own lets wrapped"""
        saved_env, saved_lets = dict(self.env), self.lets
        self.lets = []
        r = None
        for st in blk[1]:
            if st[0] == 'let' and st[1][0] == 'ppath':
                t, w = self.value(st[3])
                v = self.fresh(st[1][1])
                self.lets.append((v, t, 'let'))
                self.env[st[1][1]] = (v, w)
            elif st[0] == 'tail':
                r = self.value(st[1])
            else:
                raise Unsupported("block used as a value: statement")
        if r is None:
            raise Unsupported("block without value")
        term = self.wrap_res('Ok %s' % r[0])
        self.env, self.lets = saved_env, saved_lets
        return term, r[1]

    def wrap_res(self, body):
        out = body
        for item in reversed(self.lets):
            v, t, kind = item
            if kind == 'bind':
                out = '(%s <- %s ;; %s)' % (v, t, out)
            else:
                out = '(let %s := %s in %s)' % (v, t, out)
        return out

    def stmts(self, sts):
        """-> term of type res (option Z)"""
        if not sts:
            return self.wrap_res('Ok None')
        st, rest = sts[0], sts[1:]
        if st[0] == 'let' and st[1][0] == 'ppath':
            e = st[3]
            if e[0] == 'if':
                c = self.cond(e[1])
                a, wa = self.block_value(e[2])
                b, wb = self.block_value(e[3])
                if wa != wb:
                    raise Unsupported("if branches of different widths")
                v = self.fresh(st[1][1])
                self.lets.append((v, '(if %s then %s else %s)' % (c, a, b), 'bind'))
                self.env[st[1][1]] = (v, wa)
            else:
                t, w = self.value(e)
                v = self.fresh(st[1][1])
                self.lets.append((v, t, 'let'))
                self.env[st[1][1]] = (v, w)
            return self.stmts(rest)
        if st[0] in ('stmt', 'tail'):
            e = st[1]
            if e[0] == 'mcall' and show(e[1]) == 'self' and e[2].startswith('set_dst'):
                if rest:
                    raise Unsupported("statements after set_dst")
                t, w = self.set_dst(e[2], e[3])
                if w != 64:
                    raise Unsupported("destination register defined with a %d-bit value" % w)
                return self.wrap_res('Ok (Some %s)' % t)
            if e[0] == 'mcall' and show(e[1]) == 'bcx' and e[2] == 'def_var':
                tgt, val = e[3]
                if show(tgt).replace(' ', '').replace('(', '').replace(')', '') != 'self.registers[insn.dstasusize]' or rest:
                    raise Unsupported("def_var of %s" % show(tgt))
                t, w = self.value(val)
                if w != 64:
                    raise Unsupported("destination register defined with a %d-bit value" % w)
                return self.wrap_res('Ok (Some %s)' % t)
            if e[0] == 'if':
                c = self.cond(e[1])
                saved_env, saved_lets = dict(self.env), self.lets
                self.lets = []
                a = self.stmts(list(e[2][1]) + rest)
                self.env, self.lets = dict(saved_env), []
                b = self.stmts((list(e[3][1]) if e[3] is not None else []) + rest)
                self.env, self.lets = saved_env, saved_lets
                return self.wrap_res('(if %s then %s else %s)' % (c, a, b))
        raise Unsupported("arm statement at line %s" % (st[2] if st[0] != 'let' else st[4]))


def gen_clalu(src_dir):
    env, _ = U.read_consts(src_dir)
    toks = U.load(src_dir, 'cranelift.rs')
    out = [U.HDR % 'src/cranelift.rs (translate_program: the IR of every ALU arm except the byte swaps)',
           "From RbpfV Require Import Ebpf ClirSem.\nFrom RbpfV.gen Require Import Opcodes.\n\n"]
    _, fbody = R.parse_fn(toks, 'translate_program')
    arms = []

    def walk(e):
        if isinstance(e, tuple) and e and e[0] == 'match' and show(e[1]) == 'insn.opc' and len(e[2]) > 50:
            arms.extend(e[2])
            return
        if isinstance(e, (tuple, list)):
            for x in e:
                walk(x)
    walk(fbody)
    names = []
    for pat, guard, body, ln, attrs in arms:
        if pat[0] != 'ppath':
            continue
        n = pat[1].split('::')[-1]
        if n not in env:
            continue
        o = env[n][1]
        if (o & 7) not in (4, 7) or n in ('LE', 'BE'):
            continue
        if guard is not None:
            raise Unsupported("guard on ALU arm %s" % n)
        tr = ArmTr(toks, env)
        blk = body if body[0] == 'block' else ('block', [('tail', body, ln, [])])
        term = tr.stmts(list(blk[1]))
        out.append("Definition gen_cl_arm_%s (insn : insn) (rdst rsrc : Z) : res (option Z) :=\n  %s.\n\n" % (n, term))
        names.append(n)
    if len(names) < 50:
        raise Unsupported("only %d ALU arms recognised" % len(names))
    chain = 'Err 0'
    for n in reversed(names):
        chain = 'if sel_ =? %s then gen_cl_arm_%s insn rdst rsrc else\n  %s' % (n, n, chain)
    out.append("Definition gen_cl_alu (sel_ : Z) (insn : insn) (rdst rsrc : Z) : res (option Z) :=\n  %s.\n" % chain)
    return ''.join(out)


# ------------------------------------------------------------------ src/cranelift.rs: the conditional-jump arm, one opcode at a time

class JmpPE(ArmTr):
    """partial evaluation of the shared conditional-jump arm for one concrete opcode byte: Rust-level conditions on
    insn.opc are decided here, IR-building code is translated as in ArmTr"""

    def __init__(self, toks, consts, opc):
        ArmTr.__init__(self, toks, consts)
        self.opc = opc
        self.cenv = {}      # rust local -> python value (bool / int / IntCC path)

    def ceval(self, e):
        while e[0] == 'paren':
            e = e[1]
        k = e[0]
        if k == 'num':
            return e[1]
        if k == 'field' and show(e) == 'insn.opc':
            return self.opc
        if k == 'path':
            if e[1] in self.cenv:
                return self.cenv[e[1]]
            n = e[1].split('::')[-1]
            if n in self.consts:
                return self.consts[n][1]
            if e[1] in ('true', 'false'):
                return e[1] == 'true'
            if e[1] in CC:
                return ('cc', e[1])
            raise Unsupported("jump arm: constant %s" % e[1])
        if k == 'bin':
            a, b = self.ceval(e[2]), self.ceval(e[3])
            return {'&': lambda: a & b, '|': lambda: a | b, '==': lambda: a == b, '!=': lambda: a != b}[e[1]]()
        if k == 'match':
            sc = e[1]
            if sc[0] == 'tuple':
                vals = tuple(self.ceval(x) for x in sc[1])
            else:
                vals = self.ceval(sc)
            for pat, guard, body, ln, attrs in e[2]:
                saved = dict(self.cenv)
                if self.pmatch(pat, vals) and (guard is None or self.ceval(guard) is True):
                    return ('body', body)
                self.cenv = saved
            raise Unsupported("jump arm: no arm matches")
        raise Unsupported("jump arm: cannot evaluate %s" % show(e)[:50])

    def pmatch(self, pat, v):
        if pat[0] == 'pwild':
            return True
        if pat[0] == 'ppath':
            if pat[1] in ('true', 'false'):
                return v is (pat[1] == 'true')
            if '::' not in pat[1] and pat[1][0].islower():          # binding
                self.cenv[pat[1]] = v
                return True
            return self.ceval(('path', pat[1])) == v
        if pat[0] == 'ptuple':
            return isinstance(v, tuple) and len(v) == len(pat[1]) and all(self.pmatch(p, x) for p, x in zip(pat[1], v))
        if pat[0] == 'por':
            return any(self.pmatch(p, v) for p in pat[1])
        raise Unsupported("jump arm: pattern %s" % pat[0])

    def choose(self, e):
        """if / match on Rust-level constants around IR values -> the chosen branch expression"""
        if e[0] == 'if':
            c = self.ceval(e[1])
            blk = e[2] if c else e[3]
            return blk
        if e[0] == 'match':
            r = self.ceval(e)
            return r[1]
        return e

    def value(self, e):
        if e[0] in ('if', 'match'):
            b = self.choose(e)
            while b[0] == 'block' and len(b[1]) == 1 and b[1][0][0] == 'tail':
                b = b[1][0][1]
            if b[0] == 'block':
                saved = dict(self.env)
                r = None
                for st in b[1]:
                    if st[0] == 'let' and st[1][0] == 'ppath':
                        t, w = self.value(st[3])
                        vn = self.fresh(st[1][1])
                        self.lets.append((vn, t, 'let'))
                        self.env[st[1][1]] = (vn, w)
                    elif st[0] == 'tail':
                        r = self.value(st[1])
                    else:
                        raise Unsupported("jump arm: statement in a branch")
                self.env = saved
                if r is None:
                    raise Unsupported("jump arm: branch without value")
                return r
            return self.value(b)
        if e[0] == 'mcall' and e[1][0] == 'mcall' and e[1][2] == 'ins' and e[2] == 'icmp' and e[3][0][0] == 'path' and e[3][0][1] in self.cenv:
            cc = self.cenv[e[3][0][1]]
            a, wa = self.value(e[3][1])
            b, wb = self.value(e[3][2])
            if wa != wb:
                raise Unsupported("icmp on different widths")
            return '(ir_icmp %s %d %s %s)' % (CC[cc[1]], wa, a, b), 8
        return ArmTr.value(self, e)

    def run(self, sts):
        result = None
        for st in sts:
            if st[0] == 'let':
                pat, e = st[1], st[3]
                if pat[0] == 'ptuple':
                    continue                                   # (fallthrough, target) = self.insn_targets[..]
                name = pat[1]
                try:
                    v = self.ceval(e)
                    if isinstance(v, tuple) and v[0] == 'body':
                        b = v[1]
                        try:
                            self.cenv[name] = self.ceval(b)
                            continue
                        except Unsupported:
                            pass
                    else:
                        self.cenv[name] = v
                        continue
                except Unsupported:
                    pass
                t, w = self.value(e)
                vname = self.fresh(name)
                self.lets.append((vname, t, 'let'))
                self.env[name] = (vname, w)
                continue
            if st[0] in ('stmt', 'tail'):
                e = st[1]
                if e[0] == 'mcall' and e[1][0] == 'mcall' and e[1][2] == 'ins' and e[2] == 'brif':
                    result, w = self.value(e[3][0])
                    order = [show(e[3][1]), show(e[3][3])]
                    if order != ['target', 'fallthrough']:
                        raise Unsupported("brif block order %s" % order)
                    continue
                if e[0] == 'mcall' and e[2] == 'insert' and 'filled_blocks' in show(e[1]):
                    continue
            raise Unsupported("jump arm: statement at line %s" % (st[2] if st[0] != 'let' else st[4]))
        if result is None:
            raise Unsupported("jump arm: no brif")
        out = result
        for v, t, kind in reversed(self.lets):
            out = '(let %s := %s in %s)' % (v, t, out)
        return out


def gen_cljmp(src_dir):
    env, _ = U.read_consts(src_dir)
    toks = U.load(src_dir, 'cranelift.rs')
    out = [U.HDR % 'src/cranelift.rs (translate_program: the value tested by brif in the conditional-jump arm, for each opcode)',
           "From RbpfV Require Import Ebpf ClirSem.\nFrom RbpfV.gen Require Import Opcodes.\n\n"]
    _, fbody = R.parse_fn(toks, 'translate_program')
    arms = []

    def walk(e):
        if isinstance(e, tuple) and e and e[0] == 'match' and show(e[1]) == 'insn.opc' and len(e[2]) > 50:
            arms.extend(e[2])
            return
        if isinstance(e, (tuple, list)):
            for x in e:
                walk(x)
    walk(fbody)
    names = []
    for pat, guard, body, ln, attrs in arms:
        alts = pat[1] if pat[0] == 'por' else [pat]
        ops = []
        for a in alts:
            if a[0] == 'ppath':
                n = a[1].split('::')[-1]
                if n in env and (env[n][1] & 7) in (5, 6) and env[n][1] not in (0x05, 0x85, 0x8d, 0x95):
                    ops.append(n)
        if not ops:
            continue
        if len(ops) != len(alts):
            raise Unsupported("conditional jumps share an arm with other opcodes")
        for n in ops:
            pe = JmpPE(toks, env, env[n][1])
            term = pe.run(list(body[1]))
            out.append("Definition gen_cl_jmp_%s (insn : insn) (rdst rsrc : Z) : Z :=\n  %s.\n\n" % (n, term))
            names.append(n)
    if len(names) != 44:
        raise Unsupported("%d conditional-jump opcodes recognised (44 expected)" % len(names))
    chain = '0'
    for n in reversed(names):
        chain = 'if sel_ =? %s then gen_cl_jmp_%s insn rdst rsrc else\n  %s' % (n, n, chain)
    out.append("(* the value brif tests: the branch to the jump target is taken iff it is non-zero *)\n"
               "Definition gen_cl_jmp (sel_ : Z) (insn : insn) (rdst rsrc : Z) : Z :=\n  %s.\n" % chain)
    return ''.join(out)


# ------------------------------------------------------------------ src/cranelift.rs: the memory arms (access descriptors)

class MemPE(JmpPE):
    """partial evaluation of a memory arm for one opcode: yields the access performed through reg_load / reg_store /
    reg_atomic_add (width, base value, offset, stored / added value) and, for loads, how the loaded value reaches the
    destination register"""

    def ceval(self, e):
        while e[0] == 'paren':
            e = e[1]
        if e[0] == 'path' and e[1] in IR_TYPES:
            return ('ty', IR_TYPES[e[1]])
        if e[0] == 'macro' and e[1] == 'unreachable':
            raise Unsupported("unreachable arm taken")
        return JmpPE.ceval(self, e)

    def width(self, e):
        s = show(e)
        if s in self.cenv and isinstance(self.cenv[s], tuple) and self.cenv[s][0] == 'ty':
            return self.cenv[s][1]
        return JmpPE.width(self, e)

    def run_mem(self, sts):
        access = None
        result = None      # (term over `loaded`, reg) for loads
        for st in sts:
            if st[0] == 'let' and st[1][0] == 'ppath':
                name, e = st[1][1], st[3]
                # Rust-level constants first
                try:
                    v = self.ceval(e)
                    if isinstance(v, tuple) and v[0] == 'body':
                        self.cenv[name] = self.ceval(v[1])
                    else:
                        self.cenv[name] = v
                    continue
                except Unsupported:
                    pass
                if e[0] == 'mcall' and show(e[1]) == 'self' and e[2] == 'reg_load':
                    args = e[3]
                    w = self.width(args[1])
                    b, _ = self.value(args[2])
                    access = ('0', w // 8, b, self.scal(args[3]), '0')
                    self.env[name] = ('loaded', w)
                    self.inline = True           # what follows depends on the loaded value: kept inside a_res
                    continue
                t, w = self.value(e)
                if getattr(self, 'inline', False):
                    self.env[name] = (t, w)
                    continue
                vname = self.fresh(name)
                self.lets.append((vname, t, 'let'))
                self.env[name] = (vname, w)
                continue
            if st[0] in ('stmt', 'tail'):
                e = st[1]
                if e[0] == 'mcall' and show(e[1]) == 'self' and e[2] in ('reg_store', 'reg_atomic_add'):
                    args = e[3]
                    w = self.width(args[1])
                    b, _ = self.value(args[2])
                    v, wv = self.value(args[4])
                    if wv != w:
                        raise Unsupported("stored value of width %d in an access of width %d" % (wv, w))
                    access = ('1' if e[2] == 'reg_store' else '2', w // 8, b, self.scal(args[3]), v)
                    continue
                if e[0] == 'mcall' and show(e[1]) == 'self' and e[2].startswith('set_dst'):
                    t, w = self.set_dst(e[2], e[3])
                    result = (t, 'dst')
                    continue
                if e[0] == 'mcall' and show(e[1]) == 'bcx' and e[2] == 'def_var':
                    tgt, val = e[3]
                    s = show(tgt).replace(' ', '').replace('(', '').replace(')', '')
                    if s != 'self.registers[0]':
                        raise Unsupported("def_var of %s" % s)
                    t, w = self.value(val)
                    result = (t, 'r0')
                    continue
            raise Unsupported("memory arm: statement at line %s" % (st[2] if st[0] != 'let' else st[4]))
        if access is None:
            raise Unsupported("memory arm without access")
        kind, nbytes, base, off, val = access
        res = 'fun loaded : Z => %s' % (result[0] if result else 'loaded')
        target = '10' if result is None else ('0' if result[1] == 'r0' else '(dst insn)')
        body = '{| a_kind := %s; a_bytes := %d; a_base := %s; a_off := %s; a_val := %s; a_res := %s; a_target := %s |}' % (
            kind, nbytes, base, off, val, res, target)
        out = body
        for v, t, k in reversed(self.lets):
            out = '(let %s := %s in %s)' % (v, t, out)
        return out

    def value(self, e):
        while e[0] == 'paren':
            e = e[1]
        if e[0] == 'mcall' and show(e[1]) == 'bcx' and e[2] == 'use_var' and show(e[3][0]).replace(' ', '') == 'self.mem_start':
            return 'mem_start', 64
        if e[0] == 'mcall' and e[1][0] == 'mcall' and e[1][2] == 'ins' and e[2] == 'iconst' and show(e[3][0]) == 'self.isa.pointer_type()':
            return '(ir_iconst 64 %s)' % self.scal(e[3][1]), 64
        return JmpPE.value(self, e)


def gen_clmem(src_dir):
    env, _ = U.read_consts(src_dir)
    toks = U.load(src_dir, 'cranelift.rs')
    out = [U.HDR % 'src/cranelift.rs (translate_program: the access made by every load / store / atomic-add arm, one opcode at a time)',
           "From RbpfV Require Import Ebpf ClirSem.\nFrom RbpfV.gen Require Import Opcodes.\n\n"]
    _, fbody = R.parse_fn(toks, 'translate_program')
    arms = []

    def walk(e):
        if isinstance(e, tuple) and e and e[0] == 'match' and show(e[1]) == 'insn.opc' and len(e[2]) > 50:
            arms.extend(e[2])
            return
        if isinstance(e, (tuple, list)):
            for x in e:
                walk(x)
    walk(fbody)
    names = []
    for pat, guard, body, ln, attrs in arms:
        alts = pat[1] if pat[0] == 'por' else [pat]
        ops = []
        for a in alts:
            if a[0] == 'ppath':
                n = a[1].split('::')[-1]
                if n in env and (env[n][1] & 7) in (0, 1, 2, 3) and env[n][1] != 0x18:
                    ops.append(n)
        if not ops:
            continue
        if len(ops) != len(alts):
            raise Unsupported("memory opcodes share an arm with other opcodes")
        for n in ops:
            pe = MemPE(toks, env, env[n][1])
            term = pe.run_mem(list(body[1]))
            out.append("Definition gen_cl_mem_%s (insn : insn) (rdst rsrc mem_start : Z) : claccess :=\n  %s.\n\n" % (n, term))
            names.append(n)
    if len(names) != 22:
        raise Unsupported("%d memory opcodes recognised (22 expected): %s" % (len(names), names))
    chain = '{| a_kind := (-1); a_bytes := 0; a_base := 0; a_off := 0; a_val := 0; a_res := (fun x => x); a_target := 0 |}'
    for n in reversed(names):
        chain = 'if sel_ =? %s then gen_cl_mem_%s insn rdst rsrc mem_start else\n  %s' % (n, n, chain)
    out.append("Definition gen_cl_mem (sel_ : Z) (insn : insn) (rdst rsrc mem_start : Z) : claccess :=\n  %s.\n" % chain)
    return ''.join(out)


# ------------------------------------------------------------------ src/jit.rs: the x86-64 encoders (byte emission)

ENC_FNS = ['emit1', 'emit2', 'emit4', 'emit8', 'emit_modrm', 'emit_modrm_reg2reg', 'emit_modrm_and_displacement', 'emit_rex',
           'emit_basic_rex', 'emit_push', 'emit_pop', 'emit_alu32', 'emit_alu32_imm32', 'emit_alu32_imm8', 'emit_alu64',
           'emit_alu64_imm32', 'emit_alu64_imm8', 'emit_mov', 'emit_cmp_imm32', 'emit_cmp', 'emit_cmp32_imm32', 'emit_cmp32',
           'emit_load', 'emit_load_imm', 'emit_store', 'emit_store_imm32', 'emit_direct_jcc', 'emit_call',
           'emit_jump_offset', 'emit_jcc', 'emit_jmp']
RUST_TY = {'u8': 'U8', 'u16': 'U16', 'u32': 'U32', 'u64': 'U64', 'i8': 'I8', 'i16': 'I16', 'i32': 'I32', 'i64': 'I64', 'usize': 'USZ',
           'isize': 'ISZ', 'OperandSize': 'U8'}
TY_BYTES = {'u8': 1, 'u16': 2, 'u32': 4, 'u64': 8}


def fn_params(sig):
    """[(name, rust type)] after `self` and `mem`"""
    txt = [t[1] for t in sig]
    i = txt.index('(')
    depth, cur, params = 0, [], []
    for t in txt[i:]:
        if t == '(':
            depth += 1
            if depth == 1:
                continue
        if t == ')':
            depth -= 1
            if depth == 0:
                break
        if t == ',' and depth == 1:
            params.append(cur)
            cur = []
        else:
            cur.append(t)
    if cur:
        params.append(cur)
    out = []
    for p in params:
        if 'self' in p:
            continue
        name = p[p.index(':') - 1]
        ty = p[-1]
        out.append((name, ty))
    return out


def gen_jitenc(src_dir):
    from rsemit import Emitter
    from rsimp import ImpTr, coqname
    env, _ = U.read_consts(src_dir)
    toks = U.load(src_dir, 'jit.rs')
    consts = dict(env)
    for name, ty, e_, line in R.consts(toks):
        try:
            consts[name] = ('U8', U.eval_const(e_, {}))
        except Unsupported:
            pass
    # enum OperandSize { S8 = 8, S16 = 16, .. } or plain: number the variants
    variants = None
    for i in range(len(toks) - 2):
        if toks[i][1] == 'enum' and toks[i + 1][1] == 'OperandSize':
            k = R.find_matching(toks, i + 2)
            body = [t for t in toks[i + 3:k]]
            variants = []
            j = 0
            while j < len(body):
                if body[j][0] == 'id':
                    nm = body[j][1]
                    val = None
                    if j + 2 < len(body) and body[j + 1][1] == '=':
                        val = int(body[j + 2][1])
                        j += 2
                    variants.append((nm, val))
                j += 1
    if not variants:
        raise Unsupported("enum OperandSize not found")
    for idx, (nm, val) in enumerate(variants):
        consts[nm] = ('U8', val if val is not None else idx)
    out = [U.HDR % 'src/jit.rs (the x86-64 encoders emit_*: bytes appended to the code buffer)',
           "From RbpfV Require Import X86Enc.\n\n",
           "Definition %s.\n\n" % '. Definition '.join('%s : Z := %d' % (nm, consts[nm][1]) for nm, _ in variants)]
    # pure helper
    sig, body = R.parse_fn(toks, 'basix_rex_would_set_bits')
    ps = fn_params(sig)
    em = Emitter(consts, {n: (n, RUST_TY[t]) for n, t in ps})
    if len(body[1]) != 1 or body[1][0][0] != 'tail':
        raise Unsupported("basix_rex_would_set_bits is not a single expression")
    t, ty = em.expr(body[1][0][1])
    out.append("Definition gen_basix_rex_would_set_bits (%s : Z) : res bool :=\n  %s.\n\n"
               % (' '.join(n for n, _ in ps), Emitter.wrap_binds(em.take_binds(), 'Ok %s' % t)))
    for fn in ENC_FNS:
        sig, body = R.parse_fn(toks, fn)
        ps = [(n, t) for n, t in fn_params(sig) if n != 'mem']
        for n, t in ps:
            if t not in RUST_TY:
                raise Unsupported("%s: parameter type %s" % (fn, t))
        em = Emitter(consts, {n: (coqname(n), RUST_TY[t]) for n, t in ps})
        orig = em.expr

        def expr(e, expect=None, em=em, orig=orig):
            k = e[0]
            if k == 'call' and e[1][0] == 'path' and e[1][1] in em.closures:
                cl = em.closures[e[1][1]]
                mapping = {pat[1]: a for (pat, _), a in zip(cl[1], e[2])}

                def subst(x):
                    if isinstance(x, tuple):
                        if len(x) >= 2 and x[0] == 'path' and x[1] in mapping:
                            return ('paren', mapping[x[1]])
                        return tuple(subst(y) for y in x)
                    if isinstance(x, list):
                        return [subst(y) for y in x]
                    return x
                b = subst(cl[2])
                while b[0] == 'block' and len(b[1]) == 1 and b[1][0][0] == 'tail':
                    b = b[1][0][1]
                if b[0] == 'match':
                    s, sty = em.expr(b[1])
                    chain = None
                    for pat, guard, body_, ln, attrs in reversed(b[2]):
                        v, _ = em.expr(body_, 'U8')
                        if pat[0] == 'pwild':
                            chain = v
                        elif pat[0] == 'pnum':
                            chain = '(if %s =? %d then %s else %s)' % (s, pat[1], v, chain)
                        else:
                            raise Unsupported("closure pattern")
                    return chain, 'U8'
                return em.expr(b, expect)
            if k == 'mcall' and e[2] == 'contains' and e[1][0] == 'paren' and e[1][1][0] == 'range':
                x, ty = em.expr(e[3][0])
                lo = em.const_value(e[1][1][2])
                hi = em.const_value(e[1][1][3])
                if lo is None or hi is None:
                    raise Unsupported("range bounds")
                cmp_hi = '<=?' if e[1][1][1] == '..=' else '<?'
                return '((%s <=? %s) && (%s %s %s))' % ('(%d)' % lo if lo < 0 else lo, x, x, cmp_hi, hi), 'BOOL'
            if k == 'mcall' and show(e[1]) == 'self' and e[2] == 'basix_rex_would_set_bits':
                ts = [em.expr(a)[0] for a in e[3]]
                return em.hoist('gen_basix_rex_would_set_bits %s' % ' '.join(ts)), 'BOOL'
            if k == 'path' and e[1] == 'i32::MIN':
                return '(-2147483648)', 'I32'
            if k == 'path' and e[1] == 'i32::MAX':
                return '2147483647', 'I32'
            return orig(e, expect)
        em.expr = expr

        def hook(tr, st, k, mode, names, em=em):
            if st[0] == 'let' and st[3] is not None and st[3][0] == 'struct' and show(st[3][1] if isinstance(st[3][1], tuple) else ('path', st[3][1])).endswith('Jump'):
                return k()          # the record pushed on self.jumps (the fix-up list is modelled in the JitLogic unit)
            if st[0] in ('stmt', 'tail') and st[1][0] == 'mcall' and show(st[1][1]).replace(' ', '') == 'self.jumps' and st[1][2] == 'push':
                return k()
            if st[0] in ('stmt', 'tail'):
                e = st[1]
                if e[0] == 'mcall' and show(e[1]) == 'self' and e[2] in ENC_FNS and e[3] and show(e[3][0]) == 'mem':
                    callee_sig, _ = R.parse_fn(toks, e[2])
                    cps_ = [(n, t) for n, t in fn_params(callee_sig) if n != 'mem']
                    ts = []
                    for a, (n, t) in zip(e[3][1:], cps_):
                        tt, _ = em.expr(a, RUST_TY[t])
                        ts.append(tt)
                    binds = em.take_binds()
                    return Emitter.wrap_binds(binds, '(mem <- gen_%s mem %s ;; %s)' % (e[2], ' '.join(ts), k()))
                if e[0] == 'macro' and e[1] == 'emit_bytes':
                    groups = []
                    cur = []
                    for t in e[2]:
                        if t[0] == 'op' and t[1] == ',':
                            groups.append(cur)
                            cur = []
                        else:
                            cur.append(t)
                    groups.append(cur)
                    if len(groups) != 3 or groups[0][0][1] != 'mem' or groups[2][0][1] not in TY_BYTES:
                        raise Unsupported("emit_bytes! arguments")
                    data = R.Parser(groups[1] + [('eof', '', None, -1)]).expr()
                    tt, _ = em.expr(data)
                    binds = em.take_binds()
                    return Emitter.wrap_binds(binds, '(let mem := emit_le mem %d %s in %s)' % (TY_BYTES[groups[2][0][1]], tt, k()))
                if e[0] == 'macro' and e[1] in ('assert_eq', 'assert'):
                    groups = []
                    cur = []
                    depth = 0
                    for t in e[2]:
                        if t[0] == 'op' and t[1] in '([':
                            depth += 1
                        if t[0] == 'op' and t[1] in ')]':
                            depth -= 1
                        if t[0] == 'op' and t[1] == ',' and depth == 0:
                            groups.append(cur)
                            cur = []
                        else:
                            cur.append(t)
                    groups.append(cur)
                    asts = [R.Parser(g + [('eof', '', None, -1)]).expr() for g in groups]
                    if e[1] == 'assert_eq':
                        cond = ('bin', '==', asts[0], asts[1], e[3])
                    else:
                        cond = asts[0]
                    c, _ = em.expr(cond)
                    binds = em.take_binds()
                    return Emitter.wrap_binds(binds, '(if %s then %s else Panic 0)' % (c, k()))
            if st[0] == 'let' and st[1][0] == 'ptuple' and st[3] is not None and st[3][0] == 'match':
                # let (a, b, c) = match x { P => (..), .. }  ->  one match per component
                names_ = [p[1] for p in st[1][1]]
                m = st[3]
                new = []
                for idx, nm in enumerate(names_):
                    arms = []
                    for pat, guard, body_, ln, attrs in m[2]:
                        if body_[0] != 'tuple' or len(body_[1]) != len(names_):
                            raise Unsupported("tuple-valued match arm")
                        arms.append((pat, guard, body_[1][idx], ln, attrs))
                    new.append(('let', ('ppath', nm), None, ('match', m[1], arms), st[4], [], None))
                return tr.stmts(new, 'plain', [], False).replace('Ok tt', k()) if False else _seq(tr, new, k)
            return None

        def _seq(tr, lets, k):
            if not lets:
                return k()
            return tr.let_stmt(lets[0], lambda: _seq(tr, lets[1:], k))
        tr = ImpTr(em, ['mem'], stmt_hook=hook)
        em.locals['mem'] = ('mem', 'BYTES')

        def mutating_call(e):
            if e[0] == 'mcall' and show(e[1]) == 'self' and e[2] in ENC_FNS:
                return ['mem']
            return []
        tr.mutating_call = mutating_call

        def finish(mode, names, tr=tr):
            return 'Ok mem'
        tr.finish = finish
        term = tr.block(body, 'plain', ['mem'])
        out.append("Definition gen_%s (mem : list Z) %s: res (list Z) :=\n  %s.\n\n"
                   % (fn, ''.join('(%s : Z) ' % coqname(n) for n, _ in ps), term))
    return ''.join(out)


# ------------------------------------------------------------------ src/jit.rs: which encoders each ALU opcode uses

XI_OF = {'emit_alu32': ('XAlu 0', 3), 'emit_alu64': ('XAlu 1', 3), 'emit_alu32_imm32': ('XAluI32 0', 4), 'emit_alu64_imm32': ('XAluI32 1', 4),
         'emit_alu32_imm8': ('XAluI8 0', 4), 'emit_alu64_imm8': ('XAluI8 1', 4), 'emit_mov': ('XAlu 1 137', 2),
         'emit_load_imm': ('XLoadImm', 2),
         'emit_cmp_imm32': ('XAluI32 1 129 7', 2), 'emit_cmp': ('XAlu 1 57', 2), 'emit_cmp32_imm32': ('XAluI32 0 129 7', 2), 'emit_cmp32': ('XAlu 0 57', 2)}


def gen_jitarms(src_dir):
    env, _ = U.read_consts(src_dir)
    toks = U.load(src_dir, 'jit.rs')
    consts = {}
    for name, ty, e_, line in R.consts(toks):
        try:
            consts[name] = U.eval_const(e_, {})
        except Unsupported:
            pass
    out = [U.HDR % 'src/jit.rs (jit_compile: the encoder calls made for each ALU opcode that does not go through emit_muldivmod)',
           "From RbpfV Require Import Ebpf X86Sem.\nFrom RbpfV.gen Require Import Opcodes.\n\n"]
    _, fbody = R.parse_fn(toks, 'jit_compile')
    arms = []

    def walk(e):
        if isinstance(e, tuple) and e and e[0] == 'match' and show(e[1]) == 'insn.opc' and len(e[2]) > 50:
            arms.extend(e[2])
            return
        if isinstance(e, (tuple, list)):
            for x in e:
                walk(x)
    walk(fbody)

    def arg(e):
        while e[0] == 'paren':
            e = e[1]
        if e[0] == 'num':
            return str(e[1])
        if e[0] == 'path':
            if e[1] in ('src', 'dst'):
                return e[1]
            if e[1] in consts:
                return str(consts[e[1]])
        if e[0] == 'field' and show(e[1]) == 'insn' and e[2] in ('imm', 'off'):
            return '(%s insn)' % e[2]
        if e[0] == 'as':
            tn = R.tyname(e[2])
            m = {'i8': 'I8', 'i32': 'I32', 'u8': 'U8', 'i64': 'I64'}
            if tn in m:
                return '(cast %s %s)' % (m[tn], arg(e[1]))
        raise Unsupported("jit arm argument %s" % show(e)[:40])

    def call(e):
        if e[0] == 'mcall' and show(e[1]) == 'self' and e[2] in XI_OF and show(e[3][0]) == 'mem':
            ctor, n = XI_OF[e[2]]
            if len(e[3]) - 1 != n:
                raise Unsupported("%s arity" % e[2])
            return '%s %s' % (ctor, ' '.join(arg(a) for a in e[3][1:]))
        raise Unsupported("jit arm statement %s" % show(e)[:50])
    names = []
    for pat, guard, body, ln, attrs in arms:
        alts = pat[1] if pat[0] == 'por' else [pat]
        for a in alts:
            if a[0] != 'ppath':
                continue
            n = a[1].split('::')[-1]
            if n not in env or (env[n][1] & 7) not in (4, 7) or n in ('LE', 'BE'):
                continue
            txt = show(body)
            if 'emit_muldivmod' in txt:
                continue
            if len(alts) != 1:
                raise Unsupported("ALU opcode %s shares an arm" % n)
            if body[0] == 'block':
                calls = [call(st[1]) for st in body[1]]
            else:
                calls = [call(body)]
            out.append("Definition gen_jit_arm_%s (insn : insn) (dst src : Z) : list xi :=\n  [%s].\n\n" % (n, '; '.join(calls)))
            names.append(n)
    if len(names) != 38:
        raise Unsupported("%d ALU arms recognised (38 expected): %s" % (len(names), names))
    chain = '[]'
    for n in reversed(names):
        chain = 'if sel_ =? %s then gen_jit_arm_%s insn dst src else\n  %s' % (n, n, chain)
    out.append("Definition gen_jit_alu (sel_ : Z) (insn : insn) (dst src : Z) : list xi :=\n  %s.\n\n" % chain)
    # conditional jumps: one flag-setting instruction, then jcc with a condition code
    jnames = []
    for pat, guard, body, ln, attrs in arms:
        if pat[0] != 'ppath':
            continue
        n = pat[1].split('::')[-1]
        if n not in env or (env[n][1] & 7) not in (5, 6) or env[n][1] in (0x05, 0x85, 0x8d, 0x95):
            continue
        if body[0] != 'block' or len(body[1]) != 2:
            raise Unsupported("jump arm %s: expected two encoder calls" % n)
        first = call(body[1][0][1])
        j = body[1][1][1]
        if not (j[0] == 'mcall' and show(j[1]) == 'self' and j[2] == 'emit_jcc' and show(j[3][0]) == 'mem' and show(j[3][2]) == 'target_pc'):
            raise Unsupported("jump arm %s: second statement is not emit_jcc(mem, code, target_pc)" % n)
        code = arg(j[3][1])
        out.append("Definition gen_jit_jmp_%s (insn : insn) (dst src : Z) : xi * Z :=\n  (%s, %s).\n\n" % (n, first, code))
        jnames.append(n)
    if len(jnames) != 44:
        raise Unsupported("%d conditional-jump arms recognised (44 expected)" % len(jnames))
    # memory opcodes: loads, stores, atomic adds
    XM = {'emit_load': ('XLoad', 4), 'emit_store': ('XStore', 4), 'emit_store_imm32': ('XStoreImm', 4)}
    sizes = {'OperandSize::S8': '8', 'OperandSize::S16': '16', 'OperandSize::S32': '32', 'OperandSize::S64': '64'}

    def mcall_(e):
        if e[0] == 'mcall' and show(e[1]) == 'self' and e[2] in XM and show(e[3][0]) == 'mem':
            ctor, n_ = XM[e[2]]
            a = e[3][1:]
            if len(a) != n_ or show(a[0]) not in sizes:
                raise Unsupported("%s arguments" % e[2])
            return '%s %s %s' % (ctor, sizes[show(a[0])], ' '.join(arg(x) for x in a[1:]))
        return call(e)
    mnames = []
    for pat, guard, body, ln, attrs in arms:
        if pat[0] != 'ppath':
            continue
        n = pat[1].split('::')[-1]
        if n not in env or (env[n][1] & 7) not in (0, 1, 2, 3) or env[n][1] == 0x18:
            continue
        sts = [st[1] for st in body[1]] if body[0] == 'block' else [body]
        txt = [show(x).replace(' ', '') for x in sts]
        if len(sts) == 4 and txt[0] == 'self.emit1(mem,240)' and txt[2] == 'self.emit1(mem,1)' and \
                sts[1][2] == 'emit_basic_rex' and sts[3][2] == 'emit_modrm_and_displacement':
            # lock add [dst + off], src
            w = arg(sts[1][3][1])
            if [show(x) for x in sts[1][3][2:]] != ['src', 'dst'] or [show(x) for x in sts[3][3][1:3]] != ['src', 'dst']:
                raise Unsupported("xadd arm %s: operands" % n)
            calls = ['XLockAdd %s src dst %s' % (w, arg(sts[3][3][3]))]
        else:
            calls = [mcall_(x) for x in sts]
        out.append("Definition gen_jit_mem_%s (insn : insn) (dst src : Z) : list xi :=\n  [%s].\n\n" % (n, '; '.join(calls)))
        mnames.append(n)
    if len(mnames) != 22:
        raise Unsupported("%d memory arms recognised (22 expected): %s" % (len(mnames), mnames))
    chain = '[]'
    for n in reversed(mnames):
        chain = 'if sel_ =? %s then gen_jit_mem_%s insn dst src else\n  %s' % (n, n, chain)
    out.append("Definition gen_jit_mem (sel_ : Z) (insn : insn) (dst src : Z) : list xi :=\n  %s.\n\n" % chain)
    chain = '(XLoadImm 0 0, 0)'
    for n in reversed(jnames):
        chain = 'if sel_ =? %s then gen_jit_jmp_%s insn dst src else\n  %s' % (n, n, chain)
    out.append("Definition gen_jit_jmp (sel_ : Z) (insn : insn) (dst src : Z) : xi * Z :=\n  %s.\n" % chain)
    return ''.join(out)


# ------------------------------------------------------------------ src/cranelift.rs: byte swaps, wide loads, helper calls

class EndPE(MemPE):
    def __init__(self, toks, consts, opc, imm):
        MemPE.__init__(self, toks, consts, opc)
        self.imm = imm

    def ceval(self, e):
        while e[0] == 'paren':
            e = e[1]
        if e[0] == 'field' and show(e) == 'insn.imm':
            return self.imm
        if e[0] == 'bin' and e[1] in ('==', '!=') and 'endianness' in show(e[2]):
            is_little = show(e[3]).endswith('Little')
            return is_little if e[1] == '==' else not is_little       # x86-64 host: little-endian
        if e[0] == 'bin' and e[1] in ('==', '!='):
            a, b = self.ceval(e[2]), self.ceval(e[3])
            return (a == b) if e[1] == '==' else (a != b)
        return MemPE.ceval(self, e)

    def pmatch(self, pat, v):
        if pat[0] == 'pnum':
            return v == pat[1]
        return MemPE.pmatch(self, pat, v)

    def run_end(self, sts):
        """-> term of type option Z (new value of the destination register)"""
        for st in sts:
            if st[0] == 'let' and st[1][0] == 'ppath':
                name, e = st[1][1], st[3]
                try:
                    v = self.ceval(e)
                    if isinstance(v, tuple) and v[0] == 'body':
                        self.cenv[name] = self.ceval(v[1])
                    else:
                        self.cenv[name] = v
                    continue
                except Unsupported:
                    pass
                t, w = self.value(e)
                self.env[name] = (t, w)
                continue
            if st[0] in ('stmt', 'tail'):
                e = st[1]
                if e[0] == 'if':
                    c = self.ceval(e[1])
                    if c:
                        return self.run_end(list(e[2][1]))
                    if e[3] is None:
                        return 'None'
                    b = e[3]
                    if b[0] == 'if':
                        return self.run_end([('stmt', b, 0, [])])
                    return self.run_end(list(b[1]))
                if e[0] == 'mcall' and show(e[1]) == 'self' and e[2].startswith('set_dst'):
                    t, w = self.set_dst(e[2], e[3])
                    if w != 64:
                        raise Unsupported("destination defined with %d bits" % w)
                    return 'Some %s' % t
            raise Unsupported("byte-swap arm: statement")
        return 'None'

    def value(self, e):
        while e[0] == 'paren':
            e = e[1]
        if e[0] == 'mcall' and e[1][0] == 'mcall' and e[1][2] == 'ins' and e[2] in ('ireduce', 'uextend') and show(e[3][0]) in self.cenv:
            w = self.cenv[show(e[3][0])][1]
            a, wa = self.value(e[3][1])
            return '(ir_%s %d %d %s)' % (e[2], wa, w, a), w
        return MemPE.value(self, e)


def gen_clmisc(src_dir):
    from rsemit import Emitter
    env, _ = U.read_consts(src_dir)
    toks = U.load(src_dir, 'cranelift.rs')
    out = [U.HDR % 'src/cranelift.rs (translate_program: byte swaps per width, the wide load, the helper call)',
           "From RbpfV Require Import Ebpf ClirSem.\nFrom RbpfV.gen Require Import Opcodes.\n\n"]
    _, fbody = R.parse_fn(toks, 'translate_program')
    arms = []

    def walk(e):
        if isinstance(e, tuple) and e and e[0] == 'match' and show(e[1]) == 'insn.opc' and len(e[2]) > 50:
            arms.extend(e[2])
            return
        if isinstance(e, (tuple, list)):
            for x in e:
                walk(x)
    walk(fbody)
    done = set()
    for pat, guard, body, ln, attrs in arms:
        alts = pat[1] if pat[0] == 'por' else [pat]
        names = [a[1].split('::')[-1] for a in alts if a[0] == 'ppath']
        if set(names) == {'LE', 'BE'}:
            for n in ('LE', 'BE'):
                for w in (16, 32, 64):
                    pe = EndPE(toks, env, env[n][1], w)
                    term = pe.run_end(list(body[1]))
                    out.append("Definition gen_cl_%s%d (rdst rsrc : Z) : option Z :=\n  %s.\n\n" % (n.lower(), w, term))
            done.add('end')
        if names == ['LD_DW_IMM']:
            # let imm = <scalar>; let iconst = bcx.ins().iconst(I64, imm); self.set_dst(.., iconst)
            sts = list(body[1])
            imm_let = [st for st in sts if st[0] == 'let' and st[1][0] == 'ppath' and st[1][1] == 'imm']
            ic = [st for st in sts if st[0] == 'let' and show(st[3]).replace(' ', '').startswith('bcx.ins().iconst(I64,imm)')]
            sd = [st for st in sts if st[0] in ('stmt', 'tail') and st[1][0] == 'mcall' and st[1][2] == 'set_dst']
            if len(imm_let) != 1 or len(ic) != 1 or len(sd) != 1 or show(sd[0][1][3][2]) != ic[0][1][1]:
                raise Unsupported("LD_DW_IMM arm shape")
            em = Emitter(env, {'insn.imm': ('lo', 'I32'), 'next_insn.imm': ('hi', 'I32')})
            t, ty = em.expr(imm_let[0][3])
            if ty != 'I64':
                raise Unsupported("LD_DW_IMM: immediate type %s" % ty)
            out.append("Definition gen_cl_lddw (lo hi : Z) : res Z :=\n  %s.\n\n" % Emitter.wrap_binds(em.take_binds(), 'Ok (ir_iconst 64 %s)' % t))
            done.add('lddw')
        if names == ['CALL']:
            sts = list(body[1])
            first = sts[0]

            def find(e, pred):
                if isinstance(e, tuple) and e and pred(e):
                    return e
                if isinstance(e, (tuple, list)):
                    for x in e:
                        r = find(x, pred)
                        if r is not None:
                            return r
                return None
            guard_ok = (first[0] == 'stmt' and first[1][0] == 'if' and show(first[1][1]).replace(' ', '').strip('()') == 'insn.src!=0'
                        and first[1][3] is None
                        and find(first[1][2], lambda n: n[0] == 'return' and isinstance(n[1], tuple) and n[1][0] == 'call' and show(n[1][1]) == 'Err') is not None)
            key = None
            args = []
            ret = None
            for st in sts[1:]:
                txt = show(st[3] if st[0] == 'let' else st[1]).replace(' ', '')
                if st[0] == 'let':
                    g = find(st[3], lambda n: n[0] == 'mcall' and n[2] == 'get' and show(n[1]).replace(' ', '') == 'self.helper_func_refs')
                    if g is not None and st[3][0] == 'try' and len(g[3]) == 1:
                        key = show(g[3][0]).replace(' ', '')
                if st[0] == 'let' and txt.startswith('bcx.use_var(self.registers['):
                    args.append((st[1][1], txt[len('bcx.use_var(self.registers['):-2]))
                if st[0] == 'let' and txt.startswith('bcx.ins().call(func_ref,'):
                    arr = st[3][3][1]
                    while arr[0] in ('ref', 'paren'):
                        arr = arr[1]
                    if arr[0] != 'array':
                        raise Unsupported("CALL arm: argument list")
                    order = [show(x) for x in arr[1]]
                    regs = dict(args)
                    args = [regs[a] for a in order]
                    callv = st[1][1]
                if st[0] == 'let' and txt.startswith('bcx.inst_results('):
                    if txt != 'bcx.inst_results(%s)[0]' % callv:
                        raise Unsupported("CALL arm: result %s" % txt)
                    retv = st[1][1]
                if st[0] in ('stmt', 'tail') and txt.startswith('bcx.def_var(self.registers['):
                    ret = txt[len('bcx.def_var(self.registers['):txt.index(']')]
                    if txt != 'bcx.def_var(self.registers[%s],%s)' % (ret, retv):
                        raise Unsupported("CALL arm: def_var %s" % txt)
            if not guard_ok or key is None or ret is None:
                raise Unsupported("CALL arm shape")
            key = key.replace('&', '').replace('(', '').replace(')', '')
            if key != 'insn.immasu32':
                raise Unsupported("CALL arm: helper key %s" % key)
            out.append("(* a call with src <> 0 is refused; otherwise the helper registered under (imm as u32) is called on these registers *)\n"
                       "Definition gen_cl_call_refuses_local : bool := true.\n"
                       "Definition gen_cl_call_key (insn : insn) : Z := cast U32 (imm insn).\n"
                       "Definition gen_cl_call_args : list Z := [%s].\nDefinition gen_cl_call_result : Z := %s.\n\n" % ('; '.join(args), ret))
            done.add('call')
    if done != {'end', 'lddw', 'call'}:
        raise Unsupported("arms found: %s" % sorted(done))
    return ''.join(out)


# ------------------------------------------------------------------ src/jit.rs: emit_muldivmod (mul / div / mod sequences)

XI_SEQ = dict(XI_OF)
XI_SEQ.update({'emit_push': ('XPush', 1), 'emit_pop': ('XPop', 1), 'emit_rex': ('XRex', 4), 'emit_direct_jcc': ('XJccRel', 2),
               'emit_jmp': ('XJmpPc', 1), 'emit_jcc': ('XJccPc', 2)})


def gen_jitmuldiv(src_dir):
    env, _ = U.read_consts(src_dir)
    toks = U.load(src_dir, 'jit.rs')
    consts = {}
    for name, ty, e_, line in R.consts(toks):
        try:
            consts[name] = U.eval_const(e_, {})
        except Unsupported:
            pass
    sig, body = R.parse_fn(toks, 'emit_muldivmod')
    params = [n for n, t in fn_params(sig) if n != 'mem']
    if params != ['pc', 'opc', 'src', 'dst', 'imm']:
        raise Unsupported("emit_muldivmod parameters %s" % params)
    locs = set(params)

    def ex(e):
        """-> Coq term (Z or bool; the Rust types decide, casts between integer types are the identity on the
        ranges of the theorem: pc below 2^62, registers below 16, imm an i32)"""
        k = e[0]
        if k == 'paren':
            return ex(e[1])
        if k == 'num':
            return str(e[1])
        if k == 'path':
            n = e[1]
            if n in locs:
                return n
            if n in consts:
                return str(consts[n])
            if n.startswith('ebpf::') and n[6:] in env:
                return str(env[n[6:]][1])
            if n in ('true', 'false'):
                return n
            raise Unsupported("emit_muldivmod: name %s" % n)
        if k == 'as':
            if R.tyname(e[2]) not in ('i64', 'isize', 'usize', 'u64'):
                raise Unsupported("emit_muldivmod: cast to %s" % R.tyname(e[2]))
            return ex(e[1])
        if k == 'un' and e[1] == '!':
            return '(negb %s)' % ex(e[2])
        if k == 'bin':
            a, b = ex(e[2]), ex(e[3])
            op = e[1]
            if op == '==':
                return '(%s =? %s)' % (a, b)
            if op == '!=':
                return '(negb (%s =? %s))' % (a, b)
            if op == '&&':
                return '(%s && %s)' % (a, b)
            if op == '||':
                return '(%s || %s)' % (a, b)
            if op == '&':
                return '(Z.land %s %s)' % (a, b)
            if op == '+':
                return '(%s + %s)' % (a, b)
            raise Unsupported("emit_muldivmod: operator %s" % op)
        if k == 'if':
            def val(b):
                if b[0] == 'block' and len(b[1]) == 1 and b[1][0][0] == 'tail':
                    return ex(b[1][0][1])
                raise Unsupported("emit_muldivmod: if-expression arm")
            return '(if %s then %s else %s)' % (ex(e[1]), val(e[2]), val(e[3]))
        if k == 'match' and e[1][0] == 'mcall' and show(e[1][1]) == 'self' and e[1][2] == 'basix_rex_would_set_bits':
            args = ' '.join(ex(a) for a in e[1][3])
            arms = {a[0][1]: ex(a[2]) for a in e[2] if a[0][0] == 'ppath'}
            if set(arms) != {'true', 'false'}:
                raise Unsupported("emit_muldivmod: match arms")
            return '(match gen_basix_rex_would_set_bits %s with Ok true => %s | Ok false => %s | _ => 0 end)' % (args, arms['true'], arms['false'])
        raise Unsupported("emit_muldivmod: expression %s" % show(e)[:50])

    def returns(block):
        sts = block[1]
        return bool(sts) and sts[-1][0] in ('stmt', 'tail') and sts[-1][1][0] == 'return' and sts[-1][1][1] is None

    def seq(sts):
        if not sts:
            return '[]'
        st, rest = sts[0], sts[1:]
        if st[0] == 'let' and st[1][0] == 'ppath':
            locs.add(st[1][1])
            return '(let %s := %s in\n  %s)' % (st[1][1], ex(st[3]), seq(rest))
        if st[0] in ('stmt', 'tail'):
            e = st[1]
            if e[0] == 'return' and e[1] is None:
                if rest:
                    raise Unsupported("emit_muldivmod: code after return")
                return '[]'
            if e[0] == 'if':
                c = ex(e[1])
                if e[2][0] != 'block' or (e[3] is not None and e[3][0] != 'block'):
                    raise Unsupported("emit_muldivmod: else-if")
                if returns(e[2]):
                    if e[3] is not None:
                        raise Unsupported("emit_muldivmod: return with else")
                    return '(if %s then %s else\n  %s)' % (c, seq(list(e[2][1])), seq(rest))
                t = seq(list(e[2][1]))
                f = seq(list(e[3][1])) if e[3] is not None else '[]'
                return '((if %s then %s else %s) ++\n  %s)' % (c, t, f, seq(rest))
            if e[0] == 'mcall' and show(e[1]) == 'self' and e[2] in XI_SEQ and show(e[3][0]) == 'mem':
                ctor, n = XI_SEQ[e[2]]
                if len(e[3]) - 1 != n:
                    raise Unsupported("%s arity" % e[2])
                return '(%s %s :: %s)' % (ctor, ' '.join(ex(a) for a in e[3][1:]), seq(rest))
        raise Unsupported("emit_muldivmod: statement %s" % show(st[1] if st[0] != 'let' else st[3])[:50])
    term = seq(list(body[1]))
    # the call sites: which opcodes go through it, and with which arguments
    _, fbody = R.parse_fn(toks, 'jit_compile')
    arms = []

    def walk(e):
        if isinstance(e, tuple) and e and e[0] == 'match' and show(e[1]) == 'insn.opc' and len(e[2]) > 50:
            arms.extend(e[2])
            return
        if isinstance(e, (tuple, list)):
            for x in e:
                walk(x)
    walk(fbody)
    ops = []
    for pat, guard, b, ln, attrs in arms:
        if 'emit_muldivmod' not in show(b):
            continue
        while b[0] == 'block' and len(b[1]) == 1:
            b = b[1][0][1]
        if not (b[0] == 'mcall' and show(b[1]) == 'self' and b[2] == 'emit_muldivmod' and
                [show(a).replace(' ', '') for a in b[3]] == ['mem', 'insn_ptr', 'insn.opc', 'src', 'dst', 'insn.imm']):
            raise Unsupported("emit_muldivmod call site: %s" % show(b)[:80])
        alts = pat[1] if pat[0] == 'por' else [pat]
        for a in alts:
            n = a[1].split('::')[-1]
            if a[0] != 'ppath' or n not in env:
                raise Unsupported("emit_muldivmod call site pattern")
            ops.append(env[n][1])
    if len(ops) != 12:
        raise Unsupported("%d opcodes go through emit_muldivmod (12 expected)" % len(ops))
    out = [U.HDR % 'src/jit.rs (emit_muldivmod: the x86 sequence for mul / div / mod, and the opcodes jit_compile sends through it)',
           "From RbpfV Require Import Ebpf X86Sem.\nFrom RbpfV.gen Require Import Opcodes JitEnc.\n\n",
           "(* called as emit_muldivmod(mem, insn_ptr, insn.opc, src, dst, insn.imm) with src, dst the x86 registers of the operands *)\n",
           "Definition gen_jit_muldivmod (pc opc src dst imm : Z) : list xi :=\n  %s.\n\n" % term,
           "Definition gen_jit_muldiv_ops : list Z := [%s].\n" % '; '.join(str(o) for o in ops)]
    return ''.join(out)


# ------------------------------------------------------------------ src/jit.rs: byte swaps and the wide load

def gen_jitmisc(src_dir):
    from rsemit import Emitter
    env, _ = U.read_consts(src_dir)
    toks = U.load(src_dir, 'jit.rs')
    consts = {}
    for name, ty, e_, line in R.consts(toks):
        try:
            consts[name] = U.eval_const(e_, {})
        except Unsupported:
            pass
    _, fbody = R.parse_fn(toks, 'jit_compile')
    arms = []

    def walk(e):
        if isinstance(e, tuple) and e and e[0] == 'match' and show(e[1]) == 'insn.opc' and len(e[2]) > 50:
            arms.extend(e[2])
            return
        if isinstance(e, (tuple, list)):
            for x in e:
                walk(x)
    walk(fbody)
    out = [U.HDR % 'src/jit.rs (jit_compile: byte swaps per width, the wide load)',
           "From RbpfV Require Import Ebpf X86Sem.\nFrom RbpfV.gen Require Import Opcodes.\n\n"]

    def seq_for(width, body):
        """the encoder calls of a block / expression with insn.imm = width"""
        cenv = {}

        def val(e):
            while e[0] == 'paren':
                e = e[1]
            if e[0] == 'num':
                return e[1]
            if e[0] == 'path' and e[1] in cenv:
                return cenv[e[1]]
            if e[0] == 'path' and e[1] in consts:
                return consts[e[1]]
            if e[0] == 'field' and show(e) == 'insn.imm':
                return width
            if e[0] == 'match':
                v = val(e[1])
                for pat, guard, b, ln, attrs in e[2]:
                    if (pat[0] == 'pnum' and pat[1] == v) or pat[0] == 'pwild':
                        return val(b)
                raise Unsupported("byte-swap arm: match without default")
            raise Unsupported("byte-swap arm: value %s" % show(e)[:40])

        def arg(e):
            while e[0] == 'paren':
                e = e[1]
            if e[0] == 'path' and e[1] == 'dst':
                return 'dst'
            return str(val(e))
        sts = [st for st in body[1]] if body[0] == 'block' else [('tail', body, 0, [])]
        res = []
        i = 0
        while i < len(sts):
            st = sts[i]
            if st[0] == 'let' and st[1][0] == 'ppath':
                cenv[st[1][1]] = val(st[3])
                i += 1
                continue
            e = st[1]
            if e[0] == 'mcall' and show(e[1]) == 'self' and show(e[3][0]) == 'mem':
                # bswap: emit_basic_rex(mem, w, 0, dst); emit1(mem, 0x0f); emit1(mem, 0xc8 | (dst & 0b111))
                if e[2] == 'emit_basic_rex' and i + 2 < len(sts):
                    t1 = show(sts[i + 1][1]).replace(' ', '')
                    t2 = show(sts[i + 2][1]).replace(' ', '')
                    if t1 == 'self.emit1(mem,15)' and t2 in ('self.emit1(mem,(200|(dst&7)))', 'self.emit1(mem,200|(dst&7))') and \
                            [arg(a) for a in e[3][2:]] == ['0', 'dst']:
                        res.append('XBswap %s dst' % arg(e[3][1]))
                        i += 3
                        continue
                if e[2] == 'emit1' and arg(e[3][1]) == '102':
                    res.append('XOpSize')
                    i += 1
                    continue
                if e[2] in XI_OF:
                    ctor, n = XI_OF[e[2]]
                    if len(e[3]) - 1 != n:
                        raise Unsupported("%s arity" % e[2])
                    res.append('%s %s' % (ctor, ' '.join(arg(a) for a in e[3][1:])))
                    i += 1
                    continue
            raise Unsupported("byte-swap arm: statement %s" % show(e)[:60])
        return res
    done = set()
    for pat, guard, body, ln, attrs in arms:
        if pat[0] != 'ppath':
            continue
        n = pat[1].split('::')[-1]
        if n in ('LE', 'BE'):
            b = body
            while b[0] == 'block' and len(b[1]) == 1:
                b = b[1][0][1]
            if b[0] != 'match' or show(b[1]) != 'insn.imm':
                raise Unsupported("%s arm is not a match on insn.imm" % n)
            for w in (16, 32, 64):
                hit = [a for a in b[2] if a[0][0] == 'pnum' and a[0][1] == w or (a[0][0] == 'por' and any(p[0] == 'pnum' and p[1] == w for p in a[0][1]))]
                if len(hit) != 1:
                    raise Unsupported("%s arm: width %d" % (n, w))
                calls = seq_for(w, hit[0][2])
                out.append("Definition gen_jit_%s%d (dst : Z) : list xi :=\n  [%s].\n\n" % (n.lower(), w, '; '.join(calls)))
            done.add(n)
        if n == 'LD_DW_IMM':
            sts = list(body[1])
            txt = [show(st[3] if st[0] == 'let' else st[1]).replace(' ', '') for st in sts]
            strip = lambda z: z[1:-1] if z.startswith('(') and z.endswith(')') else z  # noqa: E731
            first_ok = sts[0][0] == 'stmt' and sts[0][1][0] == 'assign' and sts[0][1][1] == '+=' and show(sts[0][1][2]) == 'insn_ptr' and show(sts[0][1][3]) == '1'
            if len(sts) != 4 or not first_ok or sts[1][0] != 'let' or \
                    strip(txt[1]) != 'ebpf::get_insn(prog,insn_ptr).immasu64' or sts[2][0] != 'let' or \
                    txt[3] != 'self.emit_load_imm(mem,dst,(%sasi64))' % sts[2][1][1]:
                raise Unsupported("LD_DW_IMM arm shape: %s" % txt)
            em = Emitter(env, {'insn.imm': ('lo', 'I32'), sts[1][1][1]: ('(cast U64 hi)', 'U64')})
            t, ty = em.expr(sts[2][3])
            if ty != 'U64':
                raise Unsupported("LD_DW_IMM: immediate type %s" % ty)
            out.append("(* the second slot's immediate is hi; the value handed to emit_load_imm(mem, dst, _) *)\n"
                       "Definition gen_jit_lddw_value (lo hi : Z) : res Z :=\n  %s.\n\n" % Emitter.wrap_binds(em.take_binds(), 'Ok (cast I64 %s)' % t))
            out.append("Definition gen_jit_lddw (dst v : Z) : list xi :=\n  [XLoadImm dst v].\n\n")
            done.add(n)
        if n == 'CALL':
            b = body
            while b[0] == 'block' and len(b[1]) == 1:
                b = b[1][0][1]
            if b[0] != 'match' or show(b[1]) != 'insn.src':
                raise Unsupported("CALL arm is not a match on insn.src")
            h = [a for a in b[2] if a[0] == ('pnum', 0)]
            if len(h) != 1:
                raise Unsupported("CALL arm: no arm for src = 0")
            hb = h[0][2]
            while hb[0] == 'block' and len(hb[1]) == 1:
                hb = hb[1][0][1]
            if hb[0] != 'if' or hb[1][0] != 'chain' or len(hb[1][1]) != 1 or hb[1][1][0][0] != 'clet':
                raise Unsupported("helper call: not `if let Some(h) = helpers.get(..)`")
            clet = hb[1][1][0]
            if clet[1][0] != 'pctor' or clet[1][1] != 'Some' or clet[1][2][0][0] != 'ppath':
                raise Unsupported("helper call: pattern")
            hname = clet[1][2][0][1]
            key = show(clet[2]).replace(' ', '')
            if key not in ('helpers.get(&(insn.immasu32))', 'helpers.get(&((insn.immasu32)))'):
                raise Unsupported("helper call: key %s" % key)
            els = hb[3]
            if els is None or els[0] != 'block' or len(els[1]) != 1 or els[1][0][1][0] != 'try' or not show(els[1][0][1][1]).startswith('Err('):
                raise Unsupported("helper call: an unknown id is not turned into Err(..)?")
            pre, post, seen = [], [], False
            for st in hb[2][1]:
                e = st[1]
                if not (st[0] in ('stmt', 'tail') and e[0] == 'mcall' and show(e[1]) == 'self' and show(e[3][0]) == 'mem'):
                    raise Unsupported("helper call: statement %s" % show(e)[:50])
                if e[2] == 'emit_call':
                    if seen or show(e[3][1]).replace(' ', '') not in ('(*helperasusize)'.replace('helper', hname), '*helperasusize'.replace('helper', hname), '((*helper)asusize)'.replace('helper', hname)):
                        raise Unsupported("helper call: emit_call argument %s" % show(e[3][1]))
                    seen = True
                    continue
                if e[2] not in XI_SEQ:
                    raise Unsupported("helper call: encoder %s" % e[2])
                ctor, k = XI_SEQ[e[2]]
                args = []
                for a in e[3][1:]:
                    if a[0] == 'path' and a[1] in consts:
                        args.append(str(consts[a[1]]))
                    elif a[0] == 'num':
                        args.append(str(a[1]))
                    else:
                        raise Unsupported("helper call: operand %s" % show(a))
                (post if seen else pre).append('%s %s' % (ctor, ' '.join(args)))
            if not seen:
                raise Unsupported("helper call: no emit_call")
            out.append("(* helper call (src = 0): the helper registered under (imm as u32); an unregistered id makes compilation return Err.\n"
                       "   The instructions emitted before and after `emit_call(mem, helper address)` *)\n"
                       "Definition gen_jit_call_key (insn : insn) : Z := cast U32 (imm insn).\n"
                       "Definition gen_jit_call_unknown_is_error : bool := true.\n"
                       "Definition gen_jit_call_pre : list xi :=\n  [%s].\nDefinition gen_jit_call_post : list xi :=\n  [%s].\n\n" % ('; '.join(pre), '; '.join(post)))
            done.add(n)
    if done != {'LE', 'BE', 'LD_DW_IMM', 'CALL'}:
        raise Unsupported("arms found: %s" % sorted(done))
    return ''.join(out)


# ------------------------------------------------------------------ src/jit.rs: prologue and epilogue of jit_compile, the local call

def gen_jitframe(src_dir):
    env, _ = U.read_consts(src_dir)
    toks = U.load(src_dir, 'jit.rs')
    consts = {}
    for name, ty, e_, line in R.consts(toks):
        try:
            consts[name] = U.eval_const(e_, env)
        except Unsupported:
            pass
    # REGISTER_MAP
    regs = None
    for i in range(len(toks) - 3):
        if toks[i][1] == 'const' and toks[i + 1][1] == 'REGISTER_MAP':
            j = i
            while toks[j][1] != '=':
                j += 1
            k = R.find_matching(toks, j + 1)
            regs = [consts[t_[1]] for t_ in toks[j + 2:k] if t_[0] == 'id']
            break
    if regs is None:
        raise Unsupported("REGISTER_MAP not found")
    sizes = {'OperandSize::S8': '8', 'OperandSize::S16': '16', 'OperandSize::S32': '32', 'OperandSize::S64': '64'}

    def val(e):
        while e[0] == 'paren':
            e = e[1]
        if e[0] == 'num':
            return e[1]
        if e[0] == 'path' and e[1] in consts:
            return consts[e[1]]
        if e[0] == 'path' and e[1].startswith('ebpf::') and e[1][6:] in env:
            return env[e[1][6:]][1]
        if e[0] == 'call' and show(e[1]) == 'map_register' and len(e[2]) == 1:
            k = val(e[2][0])
            if not 0 <= k < len(regs):
                raise Unsupported("map_register(%d)" % k)
            return regs[k]
        if e[0] == 'as':
            return val(e[1])
        if e[0] == 'bin' and e[1] == '+':
            return val(e[2]) + val(e[3])
        if e[0] == 'bin' and e[1] in ('!=', '=='):
            r = val(e[2]) == val(e[3])
            return r if e[1] == '==' else not r
        raise Unsupported("frame code: value %s" % show(e)[:50])

    def calls(sts, sel=None):
        """encoder calls of a statement list; sel = (use_mbuff, update_data_ptr) picks the arm of the match on that pair"""
        out = []
        i = 0
        sts = list(sts)
        while i < len(sts):
            st = sts[i]
            if st[0] not in ('stmt', 'tail'):
                raise Unsupported("frame code: let")
            e = st[1]
            if e[0] == 'if':
                c = val(e[1])
                if c is True:
                    out += calls(e[2][1], sel)
                elif c is False:
                    if e[3] is not None:
                        out += calls(e[3][1], sel)
                else:
                    raise Unsupported("frame code: condition %s" % show(e[1])[:50])
                i += 1
                continue
            if e[0] == 'match' and e[1][0] == 'tuple' and [show(x) for x in e[1][1]] == ['use_mbuff', 'update_data_ptr']:
                hit = None
                for pat, guard, b, ln, attrs in e[2]:
                    if pat[0] != 'ptuple' or len(pat[1]) != 2:
                        raise Unsupported("frame code: pattern")
                    ok = True
                    for p, v in zip(pat[1], sel):
                        if p[0] == 'pwild':
                            continue
                        if p[0] == 'ppath' and p[1] in ('true', 'false'):
                            ok = ok and ((p[1] == 'true') == v)
                        else:
                            raise Unsupported("frame code: pattern %s" % str(p))
                    if ok:
                        hit = b
                        break
                if hit is None:
                    raise Unsupported("frame code: no arm for %s" % str(sel))
                out += calls(hit[1] if hit[0] == 'block' else [('stmt', hit, 0, [])], sel)
                i += 1
                continue
            if e[0] == 'mcall' and show(e[1]) == 'self' and e[3] and show(e[3][0]) == 'mem':
                fn = e[2]
                a = e[3][1:]
                if fn == 'emit1' and val(a[0]) == 0xe8 and i + 1 < len(sts) and sts[i + 1][1][0] == 'mcall' and sts[i + 1][1][2] == 'emit4':
                    out.append('XCallRel %d' % val(sts[i + 1][1][3][1]))
                    i += 2
                    continue
                if fn == 'emit1' and val(a[0]) == 0xe8 and i + 1 < len(sts) and sts[i + 1][1][0] == 'mcall' and sts[i + 1][1][2] == 'emit_jump_offset':
                    out.append('XCallPc')
                    i += 2
                    continue
                if fn == 'emit1' and val(a[0]) == 0xc3:
                    out.append('XRet')
                    i += 1
                    continue
                if fn in ('emit_load', 'emit_store'):
                    ctor = 'XLoad' if fn == 'emit_load' else 'XStore'
                    out.append('%s %s %s' % (ctor, sizes[show(a[0])], ' '.join(zl(val(x)) for x in a[1:])))
                    i += 1
                    continue
                if fn == 'set_anchor':
                    i += 1
                    continue
                if fn in XI_SEQ:
                    ctor, n = XI_SEQ[fn]
                    if len(a) != n:
                        raise Unsupported("%s arity" % fn)
                    out.append('%s %s' % (ctor, ' '.join(zl(val(x)) for x in a)))
                    i += 1
                    continue
            if e[0] == 'mcall' and show(e[1]) == 'self' and e[2] == 'set_anchor':
                i += 1
                continue
            raise Unsupported("frame code: statement %s" % show(e)[:60])
        return out

    def zl(v):
        return '(%d)' % v if v < 0 else str(v)
    for name, ty, e_, line in R.consts(toks):
        if name not in consts:
            try:
                consts[name] = val(e_)
            except Unsupported:
                pass
    sig, body = R.parse_fn(toks, 'jit_compile')
    sts = list(body[1])
    # prologue: up to the assignment of self.pc_locs; epilogue: after the while loop up to the final Ok(())
    pro_end = None
    loop_at = None
    for k, st in enumerate(sts):
        if st[0] == 'stmt' and st[1][0] == 'assign' and show(st[1][2]).replace(' ', '') == 'self.pc_locs' and pro_end is None:
            pro_end = k
        if st[0] in ('stmt', 'tail') and st[1][0] == 'while':
            loop_at = k
    if pro_end is None or loop_at is None or loop_at < pro_end:
        raise Unsupported("jit_compile: prologue / loop not found")
    between = sts[pro_end + 1:loop_at]
    if not (len(between) == 1 and between[0][0] == 'let' and between[0][1][1] == 'insn_ptr'):
        raise Unsupported("jit_compile: code between the prologue and the loop")
    tail = sts[loop_at + 1:]
    if not (tail and tail[-1][0] == 'tail' and show(tail[-1][1]).replace(' ', '') == 'Ok(())'):
        raise Unsupported("jit_compile: end of function")
    out = [U.HDR % 'src/jit.rs (jit_compile: prologue per VM kind, epilogue; emit_local_call)',
           "From RbpfV Require Import Ebpf X86Sem.\n\n"]
    for nm, sel in (('nombuff', (False, False)), ('mbuff', (True, False)), ('fixed', (True, True))):
        cs = calls(sts[:pro_end], sel)
        out.append("Definition gen_jit_prologue_%s : list xi :=\n  [%s].\n\n" % (nm, '; '.join(cs)))
    cs2 = calls(sts[:pro_end], (False, True))
    if cs2 != calls(sts[:pro_end], (False, False)):
        raise Unsupported("prologue without metadata buffer depends on update_data_ptr")
    out.append("Definition gen_jit_epilogue : list xi :=\n  [%s].\n\n" % '; '.join(calls(tail[:-1])))
    sig2, body2 = R.parse_fn(toks, 'emit_local_call')
    out.append("Definition gen_jit_local_call : list xi :=\n  [%s].\n\n" % '; '.join(calls(body2[1])))
    out.append("Definition gen_jit_stack_size : Z := %d.\n" % env['STACK_SIZE'][1])
    return ''.join(out)


# ------------------------------------------------------------------ src/lib.rs: what each VM kind hands to each engine

KINDS = [('mbuff', 'EbpfVmMbuff'), ('fixed', 'EbpfVmFixedMbuff'), ('raw', 'EbpfVmRaw'), ('nodata', 'EbpfVmNoData')]
PARENT = {'EbpfVmFixedMbuff': 'EbpfVmMbuff', 'EbpfVmRaw': 'EbpfVmMbuff', 'EbpfVmNoData': 'EbpfVmRaw'}
ENGINE_FN = [('interp', 'execute_program'), ('jit', 'execute_program_jit'), ('cl', 'execute_program_cranelift')]


def gen_libwrap(src_dir):
    toks = U.load(src_dir, 'lib.rs')

    def impl_slice(name):
        for i, t in enumerate(toks):
            if t[1] == 'impl':
                j = i
                names = []
                while toks[j][1] != '{':
                    if toks[j][0] == 'id':
                        names.append(toks[j][1])
                    j += 1
                if name in names:
                    k = R.find_matching(toks, j)
                    return toks[j + 1:k] + [('eof', '', None, -1)]
        raise Unsupported("impl %s not found" % name)
    impls = {ty: impl_slice(ty) for _, ty in KINDS}
    EMPTY = ('slice', 'dangling', '0')

    class Ev:
        """symbolic evaluation of one wrapper: slices are (ptr term, len term), integers are Coq terms"""

        def __init__(self, ty, env):
            self.ty = ty
            self.env = dict(env)
            self.guards = []
            self.writes = []

        def slice(self, e):
            while e[0] in ('paren', 'ref'):
                e = e[1]
            if e[0] == 'path' and e[1] in self.env and self.env[e[1]][0] == 'slice':
                return self.env[e[1]]
            if e[0] == 'array' and not e[1]:
                return EMPTY
            if e[0] == 'macro' and e[1] == 'vec' and not e[2]:
                return EMPTY
            if e[0] == 'field' and show(e).replace(' ', '') == 'self.mbuff.buffer' and self.ty == 'EbpfVmFixedMbuff':
                return ('slice', 'buf_ptr', 'buf_len')
            raise Unsupported("lib.rs wrapper: slice %s" % show(e)[:50])

        def intv(self, e):
            while e[0] == 'paren':
                e = e[1]
            if e[0] == 'num':
                return str(e[1])
            if e[0] == 'path' and e[1] in self.env and self.env[e[1]][0] == 'int':
                return self.env[e[1]][1]
            if e[0] == 'as':
                return self.intv(e[1])          # pointer / usize / u64 casts: the value is the same 64-bit number
            if e[0] == 'mcall' and e[2] == 'len' and not e[3]:
                return self.slice(e[1])[2]
            if e[0] == 'mcall' and e[2] == 'as_ptr' and not e[3]:
                return self.slice(e[1])[1]
            if e[0] == 'call' and show(e[1]) in ('core::ptr::null_mut', 'ptr::null_mut', 'std::ptr::null_mut') and not e[2]:
                return '0'
            if e[0] == 'field' and self.ty == 'EbpfVmFixedMbuff':
                s = show(e).replace(' ', '')
                if s == 'self.mbuff.data_offset':
                    return 'd'
                if s == 'self.mbuff.data_end_offset':
                    return 'e'
            if e[0] == 'match':
                sc = self.intv(e[1])
                chain = None
                for pat, guard, b, ln, attrs in reversed(e[2]):
                    v = self.intv(b)
                    if pat[0] == 'pwild':
                        chain = v
                    elif pat[0] == 'pnum':
                        chain = '(if %s =? %d then %s else %s)' % (sc, pat[1], v, chain)
                    else:
                        raise Unsupported("lib.rs wrapper: match pattern")
                return chain
            if e[0] == 'bin' and e[1] == '+':
                return '((%s + %s) mod 2 ^ 64)' % (self.intv(e[2]), self.intv(e[3]))
            raise Unsupported("lib.rs wrapper: integer %s" % show(e)[:50])

        def boolv(self, e):
            while e[0] == 'paren':
                e = e[1]
            if e[0] == 'bin' and e[1] in ('||', '&&'):
                return '(%s %s %s)' % (self.boolv(e[2]), e[1], self.boolv(e[3]))
            if e[0] == 'bin' and e[1] in ('>', '<', '>=', '<=', '==', '!='):
                a, b = self.intv(e[2]), self.intv(e[3])
                return {'>': '(%s <? %s)' % (b, a), '<': '(%s <? %s)' % (a, b), '>=': '(%s <=? %s)' % (b, a), '<=': '(%s <=? %s)' % (a, b),
                        '==': '(%s =? %s)' % (a, b), '!=': '(negb (%s =? %s))' % (a, b)}[e[1]]
            if e[0] == 'un' and e[1] == '!':
                return '(negb %s)' % self.boolv(e[2])
            if e[0] == 'mcall' and e[2] == 'is_empty' and not e[3]:
                return '(%s =? 0)' % self.slice(e[1])[2]
            raise Unsupported("lib.rs wrapper: condition %s" % show(e)[:50])

        def run(self, sts, cond=None):
            """-> ('engine', name, args) of the final expression"""
            for st in sts:
                if st[0] == 'let' and st[1][0] == 'ppath':
                    name, e = st[1][1], st[3]
                    try:
                        self.env[name] = self.slice(e)
                        continue
                    except Unsupported:
                        pass
                    if e[0] == 'mcall' and e[2] == 'as_ref' and show(e[1]).replace(' ', '') == 'self.stack_usage':
                        self.env[name] = ('opaque',)
                        continue
                    self.env[name] = ('int', self.intv(e))
                    continue
                e = st[1]
                while e[0] in ('unsafe', 'paren') or (e[0] == 'block' and len(e[1]) == 1 and e[1][0][0] in ('tail', 'stmt')):
                    e = e[1] if e[0] != 'block' else e[1][0][1]
                if e[0] == 'block':
                    r = self.run(e[1], cond)
                    if r is not None:
                        return r
                    continue
                if e[0] == 'if':
                    c = self.boolv(e[1])
                    body = e[2][1]
                    # `if c { Err(..)? }`: the call fails before anything else happens
                    if len(body) == 1 and body[0][1][0] == 'try' and show(body[0][1][1]).startswith('Err(') and e[3] is None:
                        self.guards.append(c if cond is None else '(%s && %s)' % (cond, c))
                        continue
                    if e[3] is not None:
                        raise Unsupported("lib.rs wrapper: if / else")
                    inner = c if cond is None else '(%s && %s)' % (cond, c)
                    r = self.run(body, inner)
                    if r is not None:
                        raise Unsupported("lib.rs wrapper: conditional engine call")
                    continue
                if e[0] == 'call' and show(e[1]) == 'LittleEndian::write_u64' and len(e[2]) == 2:
                    tgt = e[2][0]
                    while tgt[0] in ('ref', 'paren'):
                        tgt = tgt[1]
                    if not (tgt[0] == 'index' and show(tgt[1]).replace(' ', '') == 'self.mbuff.buffer' and tgt[2][0] == 'range' and tgt[2][3] is None):
                        raise Unsupported("lib.rs wrapper: write target %s" % show(e[2][0])[:50])
                    off = self.intv(tgt[2][2])
                    v = self.intv(e[2][1])
                    self.writes.append('(%s, %s, %s)' % (cond or 'true', off, v))
                    continue
                if cond is not None:
                    raise Unsupported("lib.rs wrapper: conditional statement %s" % show(e)[:40])
                # the engine call, or a delegation
                if e[0] == 'call' and show(e[1]) == 'interpreter::execute_program':
                    a = e[2]
                    if len(a) != 6 or show(a[0]).replace(' ', '') != 'self.prog':
                        raise Unsupported("interpreter call arguments")
                    m_, b_ = self.slice(a[2]), self.slice(a[3])
                    return ('interp', [m_[1], m_[2], b_[1], b_[2]])
                if e[0] == 'match' and show(e[1]).replace(' ', '') in ('&self.jit', '&self.parent.jit', '&self.cranelift_prog', '&self.parent.cranelift_prog'):
                    some = [a for a in e[2] if a[0][0] == 'pctor' and a[0][1] == 'Some']
                    none = [a for a in e[2] if a[0] == ('ppath', 'None')]
                    if len(some) != 1 or len(none) != 1 or not show(none[0][2]).startswith('Err('):
                        raise Unsupported("engine match arms")
                    okc = some[0][2]
                    while okc[0] == 'block' and len(okc[1]) == 1 and okc[1][0][0] in ('tail', 'stmt'):
                        okc = okc[1][0][1]
                    if not (okc[0] == 'call' and show(okc[1]) == 'Ok' and len(okc[2]) == 1):
                        raise Unsupported("engine call is not Ok(..)")
                    c = okc[2][0]
                    var = some[0][0][2][0][1]
                    if c[0] == 'call' and c[1][0] == 'mcall' and c[1][2] == 'get_prog' and show(c[1][1]) == var:
                        return ('jit', [self.intv(x) for x in c[2]])
                    if c[0] == 'mcall' and c[2] == 'execute' and show(c[1]) == var:
                        return ('cl', [self.intv(x) for x in c[3]])
                    raise Unsupported("engine call %s" % show(c)[:50])
                if e[0] == 'mcall' and show(e[1]).replace(' ', '') == 'self.parent' and e[2].startswith('execute_program'):
                    pty = PARENT[self.ty]
                    sig, body = R.parse_fn(impls[pty], e[2])
                    pnames = [n for n, t in fn_params(sig)]
                    if len(pnames) != len(e[3]):
                        raise Unsupported("delegation arity")
                    sub = Ev(pty, {})
                    for n, a in zip(pnames, e[3]):
                        sub.env[n] = self.slice(a)
                    r = sub.run(body[1])
                    self.guards += sub.guards
                    self.writes += sub.writes
                    return r
                raise Unsupported("lib.rs wrapper: statement %s" % show(e)[:60])
            return None
    out = [U.HDR % 'src/lib.rs (execute_program / _jit / _cranelift of the four VM kinds: the arguments that reach each engine, the words written to the fixed metadata buffer; the JIT flags of each kind)',
           "(* mem = the packet slice (address, length); mb = the metadata slice given to EbpfVmMbuff; buf = the internal buffer of\n"
           "   EbpfVmFixedMbuff with its offsets d, e; dangling = the address of an empty slice.  w_fail: the call returns Err before\n"
           "   anything else; w_writes: (condition, offset, value) little-endian u64 stores into buf; w_args: the arguments of the\n"
           "   engine (interpreter: mem ptr, len, metadata ptr, len; JIT: rdi, rsi, rdx, rcx, r8, r9; Cranelift: p0..p3) *)\n"
           "Record wrap := { w_fail : bool; w_writes : list (bool * Z * Z); w_args : list Z }.\n\n"]
    for kn, ty in KINDS:
        for en, fn in ENGINE_FN:
            sig, body = R.parse_fn(impls[ty], fn)
            pnames = [n for n, t in fn_params(sig)]
            ev = Ev(ty, {})
            want = {'mbuff': ['mem', 'mbuff'], 'fixed': ['mem'], 'raw': ['mem'], 'nodata': []}[kn]
            if pnames != want:
                raise Unsupported("%s::%s parameters %s" % (ty, fn, pnames))
            if 'mem' in pnames:
                ev.env['mem'] = ('slice', 'mem_ptr', 'mem_len')
            if 'mbuff' in pnames:
                ev.env['mbuff'] = ('slice', 'mb_ptr', 'mb_len')
            r = ev.run(body[1])
            if r is None or r[0] != en:
                raise Unsupported("%s::%s does not end in a call of the %s engine" % (ty, fn, en))
            fail = 'false'
            for g in ev.guards:
                fail = g if fail == 'false' else '(%s || %s)' % (fail, g)
            out.append("Definition gen_wrap_%s_%s (mem_ptr mem_len mb_ptr mb_len buf_ptr buf_len d e dangling : Z) : wrap :=\n"
                       "  {| w_fail := %s; w_writes := [%s]; w_args := [%s] |}.\n\n" % (kn, en, fail, '; '.join(ev.writes), '; '.join(r[1])))
    # the (use_mbuff, update_data_ptr) flags each kind compiles its JIT code with, in the std and in the no_std build
    def flags_of(ty):
        sig, body = R.parse_fn(impls[ty], 'jit_compile')
        found = {'std': set(), 'nostd': set()}
        deleg = []

        def walk(e, cfgs):
            if isinstance(e, tuple) and e and e[0] in ('stmt', 'tail', 'let'):
                attrs = e[3] if e[0] != 'let' else e[5]
                for a in attrs:
                    t = a.replace(' ', '')
                    if t == 'cfg(feature="std")':
                        cfgs = ['std']
                    elif t == 'cfg(not(feature="std"))':
                        cfgs = ['nostd']
            if isinstance(e, tuple) and e and e[0] == 'call' and show(e[1]) in ('jit::JitMemory::new', 'JitMemory::new'):
                a = tuple(show(x) for x in e[2][-2:])
                for c in cfgs:
                    found[c].add(a)
            if isinstance(e, tuple) and e and e[0] == 'mcall' and show(e[1]).replace(' ', '') == 'self.parent' and e[2] == 'jit_compile':
                deleg.append(cfgs)
            if isinstance(e, (tuple, list)):
                for x in e:
                    walk(x, cfgs)
        walk(body, ['std', 'nostd'])
        if deleg:
            if found['std'] or found['nostd']:
                raise Unsupported("%s::jit_compile both delegates and compiles" % ty)
            return flags_of(PARENT[ty])
        for c in ('std', 'nostd'):
            if len(found[c]) != 1 or not all(x in ('true', 'false') for x in list(found[c])[0]):
                raise Unsupported("%s::jit_compile flags (%s) %s" % (ty, c, sorted(found[c])))
        return list(found['std'])[0], list(found['nostd'])[0]
    for kn, ty in KINDS:
        fs, fn_ = flags_of(ty)
        out.append("Definition gen_jit_flags_%s : bool * bool := (%s, %s).\n" % (kn, fs[0], fs[1]))
        out.append("Definition gen_jit_flags_%s_no_std : bool * bool := (%s, %s).\n" % (kn, fn_[0], fn_[1]))
    return ''.join(out)


# ------------------------------------------------------------------ src/jit.rs: JitMemory::new in the std and in the no_std build

def gen_jitmem(src_dir):
    from rsemit import Emitter
    env, _ = U.read_consts(src_dir)
    toks = U.load(src_dir, 'jit.rs')
    consts = dict(env)
    for name, ty, e_, line in R.consts(toks):
        try:
            consts[name] = ('USZ', U.eval_const(e_, {}))
        except Unsupported:
            pass
    out = [U.HDR % 'src/jit.rs (JitMemory::new, std and no_std twins: size of the code buffer, refusals of caller-supplied memory, the two passes)', "\n"]
    sig, body = R.parse_fn(toks, 'round_up_to_page')
    ps = fn_params(sig)
    if [n for n, t in ps] != ['size'] or len(body[1]) != 1:
        raise Unsupported("round_up_to_page shape")
    em = Emitter(consts, {'size': ('size', 'USZ')})
    t, ty = em.expr(body[1][0][1])
    out.append("Definition gen_round_up_to_page (size : Z) : res Z :=\n  %s.\n\n" % Emitter.wrap_binds(em.take_binds(), 'Ok %s' % t))
    twins = {}
    for i, tk in enumerate(toks):
        if tk[1] == 'fn' and toks[i + 1][1] == 'new':
            back = ''.join(x[1] for x in toks[max(0, i - 14):i])
            if 'cfg(feature="std")' in back:
                which = 'std'
            elif 'cfg(not(feature="std"))' in back:
                which = 'no_std'
            else:
                continue
            if which in twins:
                raise Unsupported("two %s versions of new" % which)
            twins[which] = R.parse_fn(toks[i - 1:] if toks[i - 1][1] == 'pub' else toks[i:], 'new')
    if set(twins) != {'std', 'no_std'}:
        raise Unsupported("JitMemory::new twins found: %s" % sorted(twins))
    for which in ('std', 'no_std'):
        sig, body = twins[which]
        sts = list(body[1])
        size_let = [st for st in sts if st[0] == 'let' and st[1] == ('ppath', 'size')]
        if len(size_let) != 1:
            raise Unsupported("%s new: no `let size`" % which)
        e = size_let[0][3]
        # round_up_to_page(counter.offset.max(PAGE_SIZE))
        if not (e[0] == 'call' and show(e[1]) == 'round_up_to_page' and len(e[2]) == 1 and e[2][0][0] == 'mcall' and e[2][0][2] == 'max'
                and show(e[2][0][1]).replace(' ', '') == 'counter.offset'):
            raise Unsupported("%s new: size expression %s" % (which, show(e)))
        em = Emitter(consts, {})
        mx, _ty = em.expr(e[2][0][3][0])
        out.append("(* code_len = the offset reached by the sizing pass *)\nDefinition gen_jit_mem_size_%s (code_len : Z) : res Z :=\n  gen_round_up_to_page (Z.max code_len %s).\n\n" % (which, mx))
        # the sizing pass and the emitting pass take the same arguments, then resolve_jumps
        passes = []

        def walk(x):
            if isinstance(x, tuple) and x and x[0] == 'mcall' and x[2] in ('jit_compile', 'resolve_jumps') and show(x[1]) == 'jit':
                passes.append((x[2], [show(a).replace(' ', '') for a in x[3]]))
            if isinstance(x, (tuple, list)):
                for y in x:
                    walk(y)
        walk(body)
        want = [('jit_compile', ['&counter', 'prog', 'use_mbuff', 'update_data_ptr', 'helpers']),
                ('jit_compile', ['&mem', 'prog', 'use_mbuff', 'update_data_ptr', 'helpers']), ('resolve_jumps', ['&mem'])]
        if passes != want:
            raise Unsupported("%s new: passes %s" % (which, passes))
        if which == 'no_std':
            # refusals: `if c { return Err(..) }` on the caller's buffer
            em = Emitter(consts, {'contents.len()': ('len', 'USZ'), 'size': ('size', 'USZ'), 'ptr': ('ptr', 'USZ')})
            conds = []
            bufname = None
            for st in sts:
                if st[0] == 'let' and st[1][0] == 'ppath' and st[3] is not None and show(st[3]) == 'executable_memory':
                    bufname = st[1][1]
                if st[0] in ('stmt', 'tail') and st[1][0] == 'if':
                    b = st[1][2][1]
                    if len(b) == 1 and b[0][1][0] == 'return' and show(b[0][1][1]).startswith('Err('):
                        c = st[1][1]

                        def subst(x):
                            if isinstance(x, tuple):
                                if x and x[0] == 'mcall' and x[2] == 'len' and show(x[1]) == bufname:
                                    return ('path', 'contents.len()')
                                if x and x[0] == 'as' and x[1][0] == 'mcall' and x[1][2] == 'as_ptr' and show(x[1][1]) == bufname:
                                    return ('path', 'ptr')
                                return tuple(subst(y) for y in x)
                            if isinstance(x, list):
                                return [subst(y) for y in x]
                            return x
                        t2, ty2 = em.expr(subst(c))
                        if ty2 != 'BOOL':
                            raise Unsupported("no_std new: refusal condition type")
                        conds.append(Emitter.wrap_binds(em.take_binds(), 'Ok %s' % t2))
                    else:
                        raise Unsupported("no_std new: if statement")
            if not conds:
                raise Unsupported("no_std new: no refusal")
            term = 'Ok false'
            for c in reversed(conds):
                term = '(c_ <- %s ;; if c_ then Ok true else %s)' % (c, term)
            out.append("(* true = Err: the caller's memory (address ptr, length len) is refused for a program needing size bytes *)\n"
                       "Definition gen_jit_mem_refuses_no_std (ptr len size : Z) : res bool :=\n  %s.\n\n" % term)
    # the emit_bytes! macro: every byte of the image goes through it; in the writing pass it asserts that the write fits
    import re as _re
    text = open(os.path.join(src_dir, 'jit.rs')).read()
    m0 = _re.search(r'macro_rules!\s*emit_bytes\s*\{', text)
    if not m0:
        raise Unsupported("emit_bytes! not found")
    depth, j = 0, m0.end() - 1
    while True:
        if text[j] == '{':
            depth += 1
        elif text[j] == '}':
            depth -= 1
            if depth == 0:
                break
        j += 1
    mbody = _re.sub(r'//[^\n]*', '', text[m0.end() - 1:j + 1])
    flat = _re.sub(r'\s+', '', mbody)
    tmpl = _re.compile(r'^\{\(\$mem:ident,\$data:tt,\$t:ty\)=>\{\{letsize=mem::size_of::<\$t>\(\)asusize;if\$mem\.write_enabled\{assert!\((?P<c>.*?)\);'
                       r'unsafe\{letptr=\$mem\.contents\.as_mut_ptr\(\)\.add\(\$mem\.offset\)as\*mut\$t;ptr\.write_unaligned\(\$data\);\}\}\$mem\.offset\+=size;\}\};\}$')
    mm = tmpl.match(flat)
    if not mm:
        raise Unsupported("emit_bytes! shape: %s" % flat[:200])
    cond_m = _re.search(r'assert!\((.*?)\);', mbody, _re.S)
    cond_txt = cond_m.group(1).replace('$mem.contents.len()', 'len').replace('$mem.offset', 'offset')
    if '$' in cond_txt:
        raise Unsupported("emit_bytes! assert: %s" % cond_txt)
    ctoks = R.tokenize(cond_txt)
    ce = R.Parser(ctoks).expr()
    em = Emitter(consts, {'offset': ('offset', 'USZ'), 'size': ('size', 'USZ'), 'len': ('len', 'USZ')})
    t3, ty3 = em.expr(ce)
    if ty3 != 'BOOL':
        raise Unsupported("emit_bytes! assert type")
    out.append("(* emit_bytes!, writing pass: the assertion made before `size` bytes are written at `offset` into a buffer of `len` bytes\n"
               "   (Panic / Err = the arithmetic of the condition itself overflows: the write does not happen either) *)\n"
               "Definition gen_emit_bytes_fits (offset size len : Z) : res bool :=\n  %s.\n\n" % Emitter.wrap_binds(em.take_binds(), 'Ok %s' % t3))
    return ''.join(out)



# ------------------------------------------------------------------ src/stack.rs: frame sizes (StackUsageType, StackVerifier)

def gen_stackrs(src_dir):
    """stack.rs is small and fixed in shape: the unit checks each function against the shape it knows (anything else -- a
    clamp, a rounding, another key -- is UNSUPPORTED) and emits the expressions that carry information"""
    from rsemit import Emitter
    env, _ = U.read_consts(src_dir)
    toks = U.load(src_dir, 'stack.rs')
    out = [U.HDR % 'src/stack.rs (StackUsageType::stack_usage, StackVerifier::calculate_stack_usage_for_local_func, stack_validate)', "\n"]

    def norm(e):
        return show(e).replace(' ', '')
    # StackUsageType::stack_usage
    sig, body = R.parse_fn(toks, 'stack_usage')
    sts = body[1]
    if not (len(sts) == 1 and sts[0][0] == 'tail' and sts[0][1][0] == 'match' and norm(sts[0][1][1]) == 'self' and len(sts[0][1][2]) == 2):
        raise Unsupported("stack_usage shape")
    arms = sts[0][1][2]
    d = [a for a in arms if a[0] == ('ppath', 'StackUsageType::Default')]
    c = [a for a in arms if a[0][0] == 'pctor' and a[0][1] == 'StackUsageType::Custom' and len(a[0][2]) == 1 and a[0][2][0][0] == 'ppath']
    if len(d) != 1 or len(c) != 1 or d[0][1] is not None or c[0][1] is not None:
        raise Unsupported("stack_usage arms")
    var = c[0][0][2][0][1]
    em = Emitter(env, {var: ('size', 'U16')})
    dv, dty = em.expr(d[0][2])
    ce = c[0][2]
    if ce[0] == 'un' and ce[1] == '*':
        ce = ce[2]
    cv, cty = em.expr(ce)
    if em.take_binds():
        raise Unsupported("stack_usage arms are not plain values")
    out.append("(* StackUsageType::stack_usage: None = Default, Some size = Custom(size) *)\n"
               "Definition gen_stack_usage_value (t : option Z) : Z := match t with None => %s | Some size => %s end.\n\n" % (dv, cv))
    # calculate_stack_usage_for_local_func
    sig, body = R.parse_fn(toks, 'calculate_stack_usage_for_local_func')
    sts = body[1]
    ok = (len(sts) == 3 and sts[0][0] == 'let' and sts[0][1] == ('ppath', 'ty') and norm(sts[0][3]) == 'StackUsageType::Default' and
          sts[1][0] == 'stmt' and sts[1][1][0] == 'match' and norm(sts[1][1][1]) == 'self.calculator' and len(sts[1][1][2]) == 2 and
          sts[2][0] == 'tail' and norm(sts[2][1]) == 'Ok(ty)')
    if not ok:
        raise Unsupported("calculate_stack_usage_for_local_func shape")
    some = [a for a in sts[1][1][2] if a[0][0] == 'pctor' and a[0][1] == 'Some']
    none = [a for a in sts[1][1][2] if a[0] == ('ppath', 'None')]
    if len(some) != 1 or len(none) != 1 or not (none[0][2][0] == 'return' and norm(none[0][2][1]) == 'Ok(ty)'):
        raise Unsupported("calculate_stack_usage_for_local_func arms")
    sb = some[0][2]
    if not (sb[0] == 'block' and len(sb[1]) == 1 and sb[1][0][1][0] == 'assign' and sb[1][0][1][1] == '=' and norm(sb[1][0][1][2]) == 'ty'):
        raise Unsupported("calculate_stack_usage_for_local_func: Some arm %s" % show(sb)[:80])
    v = sb[1][0][1][3]
    cname = some[0][0][2][0][1] if some[0][0][2] and some[0][0][2][0][0] == 'ppath' else None
    if not (v[0] == 'call' and norm(v[1]) == 'StackUsageType::Custom' and len(v[2]) == 1 and v[2][0][0] == 'call' and norm(v[2][0][1]) == cname and
            [norm(x) for x in v[2][0][2]] == ['prog', 'pc', 'self.data.as_mut().unwrap()']):
        raise Unsupported("calculate_stack_usage_for_local_func: the frame size is not the calculator's result as it is: %s" % show(v)[:80])
    out.append("(* calculate_stack_usage_for_local_func: with a calculator the frame size is exactly what it returns (r) for (prog, pc) *)\n"
               "Definition gen_stack_usage_type (has_calc : bool) (r : Z) : option Z := if has_calc then Some r else None.\n\n")
    # stack_validate
    sig, body = R.parse_fn(toks, 'stack_validate')
    sts = body[1]
    ok = (len(sts) == 5 and sts[0][0] == 'let' and norm(sts[0][3]) == 'HashMap::new()' and
          sts[1][0] == 'let' and sts[1][1] == ('ppath', 'ty') and norm(sts[1][3][1] if sts[1][3][0] == 'try' else sts[1][3]) == 'self.calculate_stack_usage_for_local_func(prog,0)' and
          sts[2][0] == 'stmt' and norm(sts[2][1]) == 'stack_usage.insert(0,ty)' and
          sts[3][0] == 'stmt' and sts[3][1][0] == 'for' and sts[3][1][1] == ('ppath', 'idx') and norm(sts[3][1][2]) in ('0..prog.len()/ebpf::INSN_SIZE', '0..(prog.len()/ebpf::INSN_SIZE)') and
          sts[4][0] == 'tail' and norm(sts[4][1]) == 'Ok(StackUsage(stack_usage))')
    if not ok:
        raise Unsupported("stack_validate shape: %s" % [norm(x[1]) if x[0] != 'let' else norm(x[3]) for x in sts][:5])
    fb = sts[3][1][3][1]
    if not (len(fb) == 2 and fb[0][0] == 'let' and fb[0][1] == ('ppath', 'insn') and norm(fb[0][3]) == 'ebpf::get_insn(prog,idx)' and
            fb[1][1][0] == 'if' and fb[1][1][3] is None):
        raise Unsupported("stack_validate loop body")
    cond = fb[1][1][1]
    blk = fb[1][1][2][1]
    if not (len(blk) == 3 and blk[0][0] == 'let' and blk[0][1] == ('ppath', 'dst_insn_ptr') and blk[1][0] == 'let' and blk[1][1] == ('ppath', 'ty') and
            norm(blk[1][3][1] if blk[1][3][0] == 'try' else blk[1][3]) in ('self.calculate_stack_usage_for_local_func(prog,dst_insn_ptrasusize)', 'self.calculate_stack_usage_for_local_func(prog,(dst_insn_ptrasusize))') and
            norm(blk[2][1]) in ('stack_usage.insert(dst_insn_ptrasusize,ty)', 'stack_usage.insert((dst_insn_ptrasusize),ty)')):
        raise Unsupported("stack_validate: local-call block %s" % [norm(x[3]) if x[0] == 'let' else norm(x[1]) for x in blk])
    em = Emitter(env, {'insn.opc': ('opc', 'U8'), 'insn.src': ('src', 'U8')})
    ct, cty = em.expr(cond)
    if cty != 'BOOL' or em.take_binds():
        raise Unsupported("stack_validate: condition")
    out.append("(* stack_validate: which instructions add a key besides 0 *)\nDefinition gen_stack_is_local_call (opc src : Z) : bool := %s.\n\n" % ct)
    em = Emitter(env, {'idx': ('idx', 'USZ'), 'insn.imm': ('imm', 'I32')})
    kt, kty = em.expr(('as', blk[0][3], ('ty', 'usize')))
    out.append("(* ... and the key: `(idx as isize + 1 + insn.imm as isize) as usize` *)\nDefinition gen_stack_call_key (idx imm : Z) : res Z :=\n  %s.\n\n"
               % Emitter.wrap_binds(em.take_binds(), 'Ok %s' % kt))
    return ''.join(out)

# ------------------------------------------------------------------ src/lib.rs: the state-changing API methods as effect lists

API_FNS = ['set_program', 'set_verifier', 'register_helper', 'set_stack_usage_calculator', 'jit_compile', 'cranelift_compile']


def gen_apifx(src_dir):
    toks = U.load(src_dir, 'lib.rs')

    def impl_slice(name):
        for i, t in enumerate(toks):
            if t[1] == 'impl':
                j = i
                names = []
                while toks[j][1] != '{':
                    if toks[j][0] == 'id':
                        names.append(toks[j][1])
                    j += 1
                if name in names:
                    k = R.find_matching(toks, j)
                    return toks[j + 1:k] + [('eof', '', None, -1)]
        raise Unsupported("impl %s not found" % name)
    impls = {ty: impl_slice(ty) for _, ty in KINDS}

    def norm(e):
        return show(e).replace(' ', '')

    def effects(ty, fn, view='std'):
        """effect list of a method body of `ty` (self.parent.X is read as self.X for the wrappers' own bodies), as compiled
        with (view = 'std') or without (view = 'no_std') the std feature"""
        sig, body = R.parse_fn(impls[ty], fn)
        pre = 'self.parent.' if ty != 'EbpfVmMbuff' else 'self.'
        out = []

        def fld(e):
            s = norm(e)
            if s.startswith(pre):
                return s[len(pre):]
            return None

        def stmts(sts):
            for st in sts:
                attrs = st[3] if st[0] != 'let' else st[5]
                a = [x.replace(' ', '') for x in attrs]
                if ('cfg(not(feature="std"))' in a and view == 'std') or ('cfg(feature="std")' in a and view == 'no_std') or 'cfg(windows)' in a:
                    continue                      # a non-Windows target, with the cranelift feature
                if st[0] == 'let':
                    e = st[3]
                    name = st[1][1] if st[1][0] == 'ppath' else None
                    if e[0] == 'try' and e[1][0] == 'mcall' and e[1][2] == 'stack_validate':
                        # let stack_usage = self.stack_verifier.stack_validate(prog)?
                        if name == 'stack_usage' and fld(e[1][1]) == 'stack_verifier' and [norm(x) for x in e[1][3]] == ['prog']:
                            out.append('FxValidateArg')
                            continue
                        raise Unsupported("%s::%s: let %s" % (ty, fn, show(e)[:60]))
                    if e[0] == 'match' and fld(e[1]) == 'prog' and name == 'prog':
                        some = [x for x in e[2] if x[0][0] == 'pctor' and x[0][1] == 'Some']
                        none = [x for x in e[2] if x[0] == ('ppath', 'None')]
                        if len(some) == 1 and len(none) == 1 and none[0][2][0] == 'try' and norm(none[0][2][1]).startswith('Err('):
                            out.append('FxRequireProg')
                            continue
                    if e[0] == 'match' and e[1][0] == 'mcall' and e[1][2] == 'take' and fld(e[1][1]) == 'custom_exec_memory':
                        some = [x for x in e[2] if x[0][0] == 'pctor' and x[0][1] == 'Some']
                        none = [x for x in e[2] if x[0] == ('ppath', 'None')]
                        if len(some) == 1 and len(none) == 1 and norm(some[0][2]) == some[0][0][2][0][1]:
                            out.append('FxTakeExecMem')
                            continue
                    if e[0] == 'call' and norm(e[1]) == 'StackVerifier::new':
                        if name == 'stack_verifier' and [norm(x) for x in e[2]] == ['Some(calculator)', 'Some(data)']:
                            out.append('FxNewCalc')
                            continue
                        raise Unsupported("%s::%s: let %s" % (ty, fn, show(e)[:60]))
                    if e[0] == 'call' and norm(e[1]) == 'CraneliftCompiler::new':
                        out.append('FxOther "%s"' % norm(e[1]))
                        continue
                    if e[0] == 'try' and e[1][0] == 'mcall' and e[1][2] == 'compile_function' and norm(e[1][3][0]) == 'prog':
                        out.append('FxCompile "cranelift"')
                        continue
                    raise Unsupported("%s::%s: let %s" % (ty, fn, show(e)[:50]))
                e = st[1]
                if e[0] == 'block':
                    stmts(e[1])
                    continue
                if e[0] == 'use' or (e[0] == 'path' and e[1] == 'use'):
                    continue
                if e[0] == 'try' and e[1][0] == 'call' and e[1][1][0] == 'paren' and fld(e[1][1][1]) == 'verifier' and [norm(x) for x in e[1][2]] == ['prog']:
                    out.append('FxVerifyField')
                    continue
                if e[0] == 'if' and e[1][0] == 'chain' and len(e[1][1]) == 1 and e[1][1][0][0] == 'clet' and fld(e[1][1][0][2]) == 'prog' and e[3] is None:
                    b = e[2][1]
                    if len(b) == 1 and b[0][1][0] == 'try' and norm(b[0][1][1]) == 'verifier(prog)':
                        out.append('FxVerifyArgOnLoaded')
                        continue
                    if len(b) == 1 and b[0][1][0] == 'try' and b[0][1][1][0] == 'call' and b[0][1][1][1][0] == 'paren' and \
                            fld(b[0][1][1][1][1]) == 'verifier' and [norm(x) for x in b[0][1][1][2]] == ['prog']:
                        out.append('FxVerifyFieldOnLoaded')
                        continue
                    def has_validate(x):
                        if isinstance(x, tuple) and x and x[0] == 'mcall' and x[2] == 'stack_validate':
                            return True
                        return isinstance(x, (tuple, list)) and any(has_validate(y) for y in x)
                    v_ = b[0][1][3] if len(b) == 1 and b[0][1][0] == 'assign' else None
                    if v_ is not None and b[0][1][1] == '=' and fld(b[0][1][2]) == 'stack_usage' and v_[0] == 'call' and norm(v_[1]) == 'Some' and \
                            len(v_[2]) == 1 and v_[2][0][0] == 'try' and v_[2][0][1][0] == 'mcall' and norm(v_[2][0][1][1]) == 'stack_verifier' and \
                            v_[2][0][1][2] == 'stack_validate' and [norm(x) for x in v_[2][0][1][3]] == ['prog']:
                        out.append('FxValidateLoadedIntoUsage')
                        continue
                if e[0] == 'assign' and e[1] == '=':
                    f = fld(e[2])
                    v = norm(e[3])
                    table = {('prog', 'Some(prog)'): 'FxSetProg', ('verifier', 'verifier'): 'FxSetVerifier', ('jit', 'None'): 'FxClear "jit"',
                             ('cranelift_prog', 'None'): 'FxClear "cranelift"', ('stack_usage', 'Some(stack_usage)'): 'FxSetUsage',
                             ('stack_verifier', 'stack_verifier'): 'FxSetCalc', ('cranelift_prog', 'Some(program)'): 'FxStore "cranelift"',
                             ('custom_exec_memory', 'Some(memory)'): 'FxSetExecMem'}
                    if (f, v) in table:
                        out.append(table[(f, v)])
                        continue
                    if f == 'jit' and e[3][0] == 'call' and norm(e[3][1]) == 'Some' and e[3][2][0][0] == 'try' and \
                            norm(e[3][2][0][1][1]) in ('jit::JitMemory::new', 'JitMemory::new') and norm(e[3][2][0][1][2][0]) == 'prog':
                        out.append('FxCompile "jit"')
                        out.append('FxStore "jit"')
                        continue
                if e[0] == 'mcall' and fld(e[1]) == 'helpers' and e[2] == 'insert' and [norm(x) for x in e[3]] == ['key', 'function']:
                    out.append('FxInsertHelper')
                    continue
                if e[0] == 'call' and norm(e) == 'Ok(())':
                    continue
                raise Unsupported("%s::%s: statement %s" % (ty, fn, show(e)[:60]))
        stmts(body[1])
        return out

    def delegates(ty, fn):
        sig, body = R.parse_fn(impls[ty], fn)
        pnames = [n for n, t in fn_params(sig)]
        sts = [st for st in body[1]]
        calls = []
        for st in sts:
            if st[0] == 'let':
                return False
            e = st[1]
            if e[0] == 'try':
                e = e[1]
            if e[0] == 'mcall' and norm(e[1]) == 'self.parent' and e[2] == fn and [norm(x) for x in e[3]] == pnames:
                calls.append(1)
                continue
            if norm(e) == 'Ok(())':
                continue
            return False
        return len(calls) == 1
    after = {}

    def delegates_then_local(ty, fn):
        """pure lets, then self.parent.fn(first parameter)?, then only assignments to self.mbuff.*: the wrapper's own
        state changes after -- never before -- the fallible call"""
        sig, body = R.parse_fn(impls[ty], fn)
        pnames = [n for n, t in fn_params(sig)]
        seen = False
        fields = []
        for st in body[1]:
            if st[0] == 'let':
                e = st[3]
                if e[0] in ('closure',) or (e[0] == 'macro' and e[1] == 'vec'):
                    continue
                return False
            e = st[1]
            if e[0] == 'try' and e[1][0] == 'mcall' and norm(e[1][1]) == 'self.parent' and e[1][2] == fn and [norm(x) for x in e[1][3]] == pnames[:1]:
                if seen or fields:
                    return False
                seen = True
                continue
            if e[0] == 'assign' and e[1] == '=' and norm(e[2]).startswith('self.mbuff.'):
                if not seen:
                    return False
                fields.append(norm(e[2])[5:])
                continue
            if norm(e) == 'Ok(())':
                continue
            return False
        if seen:
            after[(ty, fn)] = fields
        return seen
    base = {fn: effects('EbpfVmMbuff', fn) for fn in API_FNS}
    for kn, ty in KINDS[1:]:
        for fn in API_FNS:
            if delegates(ty, fn) or delegates_then_local(ty, fn):
                continue
            if effects(ty, fn) != base[fn] or effects(ty, fn, 'no_std') != effects('EbpfVmMbuff', fn, 'no_std'):
                raise Unsupported("%s::%s neither delegates to its parent nor has the effects of EbpfVmMbuff::%s" % (ty, fn, fn))
    out = [U.HDR % 'src/lib.rs (EbpfVmMbuff: the state-changing API methods as effect lists; the other three VM kinds delegate to them or have the same effects)',
           "From Coq Require Import String.\nFrom RbpfV Require Import ApiFx.\nOpen Scope string_scope.\n\n"]
    for fn in API_FNS:
        out.append("Definition gen_fx_%s : list fx :=\n  [%s].\n\n" % (fn, '; '.join(base[fn])))
    out.append("(* the same methods as compiled without the std feature *)\n")
    for fn in API_FNS:
        out.append("Definition gen_fx_%s_no_std : list fx :=\n  [%s].\n\n" % (fn, '; '.join(effects('EbpfVmMbuff', fn, 'no_std'))))
    # set_jit_exec_memory exists only without std: every kind stores the caller's memory and does nothing else (or delegates)
    xm = effects('EbpfVmMbuff', 'set_jit_exec_memory', 'no_std')
    for kn, ty in KINDS[1:]:
        if not delegates(ty, 'set_jit_exec_memory') and effects(ty, 'set_jit_exec_memory', 'no_std') != xm:
            raise Unsupported("%s::set_jit_exec_memory neither delegates to its parent nor has the effects of EbpfVmMbuff::set_jit_exec_memory" % ty)
    out.append("Definition gen_fx_set_jit_exec_memory_no_std : list fx :=\n  [%s].\n\n" % '; '.join(xm))
    for (ty, fn), fields in sorted(after.items()):
        out.append("(* %s::%s calls the parent's %s first and only then updates its own fields *)\n"
                   "Definition gen_fx_%s_%s_then : list string := [%s].\n" % (ty, fn, fn, ty, fn, '; '.join('"%s"' % f for f in fields)))
    return ''.join(out)


# ------------------------------------------------------------------ src/cranelift.rs: blocks of the control-flow graph

def gen_clcfg(src_dir):
    from rsemit import Emitter
    env, _ = U.read_consts(src_dir)
    toks = U.load(src_dir, 'cranelift.rs')
    out = [U.HDR % 'src/cranelift.rs (build_cfg / prepare_jump_blocks: which instructions get blocks and for which pcs; the blocks the jump arms use)',
           "From Coq Require Import String.\nFrom RbpfV Require Import Ebpf.\nFrom RbpfV.gen Require Import Opcodes.\n\n"]
    # --- build_cfg: the opcodes for which prepare_jump_blocks(bcx, insn_ptr, &insn) is called; lddw skips a slot
    sig, body = R.parse_fn(toks, 'build_cfg')
    m = []

    def walk(e):
        if isinstance(e, tuple) and e and e[0] == 'match' and show(e[1]) == 'insn.opc':
            m.append(e)
        if isinstance(e, (tuple, list)):
            for x in e:
                walk(x)
    walk(body)
    if len(m) != 1:
        raise Unsupported("build_cfg: match on insn.opc")
    ops, skip = [], []
    for pat, guard, b, ln, attrs in m[0][2]:
        alts = pat[1] if pat[0] == 'por' else [pat]
        txt = show(b).replace(' ', '')
        while b[0] == 'block' and len(b[1]) == 1:
            b = b[1][0][1]
        if pat[0] == 'pwild':
            if b[0] == 'block' and not b[1]:
                continue
            raise Unsupported("build_cfg: default arm does something")
        names = []
        for a in alts:
            n = a[1].split('::')[-1]
            if a[0] != 'ppath' or n not in env:
                raise Unsupported("build_cfg: pattern")
            names.append(env[n][1])
        if b[0] == 'mcall' and show(b[1]) == 'self' and b[2] == 'prepare_jump_blocks' and [show(x).replace(' ', '') for x in b[3]] == ['bcx', 'insn_ptr', '&insn']:
            ops += names
        elif b[0] == 'assign' and b[1] == '+=' and show(b[2]) == 'insn_ptr' and show(b[3]) == '1':
            skip += names
        else:
            raise Unsupported("build_cfg: arm %s" % show(b)[:50])
    out.append("Definition gen_cl_cfg_ops : list Z := [%s].\nDefinition gen_cl_cfg_two_slots : list Z := [%s].\n\n"
               % ('; '.join(str(x) for x in ops), '; '.join(str(x) for x in skip)))
    # --- prepare_jump_blocks: next_pc, target_pc and the pair stored for the instruction
    sig, body = R.parse_fn(toks, 'prepare_jump_blocks')
    sts = list(body[1])
    lets = {st[1][1]: st for st in sts if st[0] == 'let' and st[1][0] == 'ppath'}
    for need in ('insn_ptr', 'next_pc', 'target_pc', 'fallthrough_block', 'target_block'):
        if need not in lets:
            raise Unsupported("prepare_jump_blocks: no `let %s`" % need)
    if show(lets['insn_ptr'][3]).replace(' ', '') not in ('insn_ptrasu32', '(insn_ptrasu32)'):
        raise Unsupported("prepare_jump_blocks: insn_ptr")
    leaves = {'insn_ptr': ('(cast U32 insn_ptr)', 'U32')}
    leaves.update(U.insn_leaves('insn', 'insn'))
    em = Emitter(env, leaves)
    t, ty = em.expr(lets['next_pc'][3])
    if ty != 'U32':
        raise Unsupported("next_pc type %s" % ty)
    out.append("Definition gen_cl_next_pc (insn_ptr : Z) : res Z :=\n  %s.\n\n" % Emitter.wrap_binds(em.take_binds(), 'Ok %s' % t))
    tp = lets['target_pc'][3]
    if tp[0] != 'match' or show(tp[1]) != 'insn.opc':
        raise Unsupported("target_pc is not a match on the opcode")
    special, general = [], None
    for pat, guard, b, ln, attrs in tp[2]:
        if pat[0] == 'pwild':
            general = b
        else:
            alts = pat[1] if pat[0] == 'por' else [pat]
            if show(b) != 'next_pc':
                raise Unsupported("target_pc: special arm value")
            special += [env[a[1].split('::')[-1]][1] for a in alts]
    # (insn_ptr as isize + insn.off as isize + 1).try_into().unwrap()  with the u32 type of the binding
    g = general
    if not (g[0] == 'mcall' and g[2] == 'unwrap' and g[1][0] == 'mcall' and g[1][2] == 'try_into'):
        raise Unsupported("target_pc: general arm is not <expr>.try_into().unwrap()")
    em = Emitter(env, leaves)
    t, ty = em.expr(g[1][1])
    if ty != 'ISZ':
        raise Unsupported("target_pc: expression type %s" % ty)
    body_t = Emitter.wrap_binds(em.take_binds(), 'chk U32 0 %s' % t)
    cond = ' || '.join('(opc insn =? %d)' % o for o in special) or 'false'
    out.append("(* try_into::<u32>().unwrap(): a negative or too large target panics *)\n"
               "Definition gen_cl_target_pc (insn_ptr : Z) (insn : insn) : res Z :=\n  if %s then gen_cl_next_pc insn_ptr else %s.\n\n" % (cond, body_t))

    def entry_key(st):
        e = st[3]
        while e[0] in ('un', 'paren'):
            e = e[2] if e[0] == 'un' else e[1]
        # self.insn_blocks.entry(K).or_insert_with(..)
        if e[0] == 'mcall' and e[2] == 'or_insert_with' and e[1][0] == 'mcall' and e[1][2] == 'entry' and show(e[1][1]).replace(' ', '') == 'self.insn_blocks':
            return show(e[1][3][0])
        raise Unsupported("prepare_jump_blocks: block lookup %s" % show(e)[:50])
    kf, kt = entry_key(lets['fallthrough_block']), entry_key(lets['target_block'])
    ins = [st for st in sts if st[0] in ('stmt', 'tail') and st[1][0] == 'mcall' and st[1][2] == 'insert' and show(st[1][1]).replace(' ', '') == 'self.insn_targets']
    if len(ins) != 1:
        raise Unsupported("prepare_jump_blocks: insn_targets.insert")
    a = ins[0][1][3]
    if show(a[0]) != 'insn_ptr' or a[1][0] != 'tuple' or [show(x) for x in a[1][1]] != ['fallthrough_block', 'target_block']:
        raise Unsupported("prepare_jump_blocks: stored pair %s" % show(a[1]))
    out.append("(* insn_targets[insn_ptr] = (block of %s, block of %s) *)\nDefinition gen_cl_targets_pair : string * string := (\"%s\", \"%s\")%%string.\n\n" % (kf, kt, kf, kt))
    # --- the arms of translate_program that end a block
    _, fbody = R.parse_fn(toks, 'translate_program')
    arms = []

    def walk2(e):
        if isinstance(e, tuple) and e and e[0] == 'match' and show(e[1]) == 'insn.opc' and len(e[2]) > 50:
            arms.extend(e[2])
            return
        if isinstance(e, (tuple, list)):
            for x in e:
                walk2(x)
    walk2(fbody)
    ja_ok = cond_ok = None
    cond_ops = []
    for pat, guard, b, ln, attrs in arms:
        alts = pat[1] if pat[0] == 'por' else [pat]
        names = [x[1].split('::')[-1] for x in alts if x[0] == 'ppath']
        if names == ['JA']:
            sts2 = list(b[1])
            l0 = sts2[0]
            ok = (l0[0] == 'let' and l0[1][0] == 'ptuple' and [p[0] for p in l0[1][1]] == ['pwild', 'ppath'] and
                  show(l0[3]).replace(' ', '') in ('self.insn_targets[&(insn_ptrasu32)]', 'self.insn_targets[(&(insn_ptrasu32))]'))
            j = [st for st in sts2 if st[0] in ('stmt', 'tail') and st[1][0] == 'mcall' and st[1][2] == 'jump']
            ok = ok and len(j) == 1 and show(j[0][1][3][0]) == l0[1][1][1][1]
            ja_ok = ok
        if 'JEQ_IMM' in names:
            cond_ops = [env[n][1] for n in names]
            sts2 = list(b[1])
            l0 = sts2[0]
            ok = (l0[0] == 'let' and l0[1][0] == 'ptuple' and [p[0] for p in l0[1][1]] == ['ppath', 'ppath'] and
                  show(l0[3]).replace(' ', '') in ('self.insn_targets[&(insn_ptrasu32)]', 'self.insn_targets[(&(insn_ptrasu32))]'))
            first, second = l0[1][1][0][1], l0[1][1][1][1]
            br = []

            def walk3(e):
                if isinstance(e, tuple) and e and e[0] == 'mcall' and e[2] == 'brif':
                    br.append(e)
                if isinstance(e, (tuple, list)):
                    for x in e:
                        walk3(x)
            walk3(sts2)
            if ok and len(br) == 1 and len(br[0][3]) == 5:
                a = br[0][3]
                cond_ok = (show(a[1]), show(a[3]), first, second)
    if not ja_ok or cond_ok is None:
        raise Unsupported("translate_program: jump arms not recognised")
    taken, nottaken, first, second = cond_ok
    out.append("(* conditional jumps: `let (%s, %s) = insn_targets[insn_ptr]; brif(cond, %s, &[], %s, &[])`; JA jumps to the second component *)\n"
               "Definition gen_cl_brif_taken_is_second : bool := %s.\nDefinition gen_cl_brif_else_is_first : bool := %s.\n"
               "Definition gen_cl_cond_jump_ops : list Z := [%s].\n"
               % (first, second, taken, nottaken, 'true' if taken == second else 'false', 'true' if nottaken == first else 'false',
                  '; '.join(str(x) for x in cond_ops)))
    return ''.join(out)
