#!/usr/bin/env python3
"""rs2v driver: regenerate coq/gen/*.v from /repo/src.
usage: main.py <repo src dir> <out dir> [unit ...]
A file is rewritten only when its content changes (keeps `make` incremental).
Prints one line per unit: `unit <name> ok|unchanged|UNSUPPORTED <reason>`; when a unit is
unsupported the existing file is kept (snapshot fallback) and status.json records it."""
import json
import os
import sys
import traceback

sys.path.insert(0, os.path.dirname(os.path.abspath(__file__)))
import units  # noqa: E402
import strunits  # noqa: E402
import clunits  # noqa: E402
from rsparse import Unsupported  # noqa: E402


units.UNITS['Disasm'] = strunits.gen_disasm
units.UNITS['Asm'] = strunits.gen_asm
units.UNITS['Clir'] = clunits.gen_clir
units.UNITS['JitLogic'] = clunits.gen_jitlogic
units.UNITS['ClAlu'] = clunits.gen_clalu
units.UNITS['ClJmp'] = clunits.gen_cljmp
units.UNITS['ClMem'] = clunits.gen_clmem
units.UNITS['JitMulDiv'] = clunits.gen_jitmuldiv
units.UNITS['JitMisc'] = clunits.gen_jitmisc
units.UNITS['JitFrame'] = clunits.gen_jitframe
units.UNITS['LibWrap'] = clunits.gen_libwrap
units.UNITS['JitMem'] = clunits.gen_jitmem
units.UNITS['StackRs'] = clunits.gen_stackrs
units.UNITS['ApiFx'] = clunits.gen_apifx
units.UNITS['ClCfg'] = clunits.gen_clcfg
units.UNITS['ClMisc'] = clunits.gen_clmisc
units.UNITS['JitEnc'] = clunits.gen_jitenc
units.UNITS['JitArms'] = clunits.gen_jitarms


def main():
    src, out = sys.argv[1], sys.argv[2]
    want = sys.argv[3:] or list(units.UNITS)
    status = {}
    for name in want:
        path = os.path.join(out, name + '.v')
        try:
            text = units.UNITS[name](src)
        except Unsupported as ex:
            status[name] = {'ok': False, 'reason': str(ex)}
            print("unit %s UNSUPPORTED %s" % (name, ex))
            continue
        except Exception as ex:  # translator bug: same fallback, but say so
            status[name] = {'ok': False, 'reason': 'translator error: %r' % (ex,)}
            print("unit %s UNSUPPORTED translator error %r" % (name, ex))
            traceback.print_exc()
            continue
        old = open(path).read() if os.path.exists(path) else None
        if old != text:
            with open(path, 'w') as f:
                f.write(text)
            status[name] = {'ok': True, 'changed': True}
            print("unit %s ok" % name)
        else:
            status[name] = {'ok': True, 'changed': False}
            print("unit %s unchanged" % name)
    sp = os.path.join(out, 'status.json')
    prev = {}
    if os.path.exists(sp) and sys.argv[3:]:
        prev = json.load(open(sp))
    prev.update(status)
    json.dump(prev, open(sp, 'w'), indent=1, sort_keys=True)


if __name__ == '__main__':
    main()
