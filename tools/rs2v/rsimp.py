"""rs2v: translation of imperative Rust blocks (let/assign/if/match/?/return/panic) into monadic
Gallina in state-passing style.

A statement sequence becomes a term of type
   mode 'fn'    : res R                  (function body; tail expression or `return` gives R)
   mode 'plain' : res S                  (S = tuple of the variables the block assigns; no `return` inside)
   mode 'ctl'   : res (ctl R S)          (block that may `return r` early: Ret r, or fall through: Next s)
Mutable variables are rebound by Coq `let`s under their own names (shadowing)."""
import re
from rsparse import Unsupported, Parser, tyname
from rsemit import Emitter, show, INT_TYPES


def mbind(pat, e, k):
    if pat.startswith("'"):
        return '(bind (%s) (fun %s => %s))' % (e, pat, k)
    return '(%s <- %s ;; %s)' % (pat, e, k)


RESERVED_EXTRA = set()    # per-unit: rust locals that would shadow a Coq record projection


def coqname(n):
    n = n.lstrip('_') or 'u'
    if n in RESERVED_EXTRA:
        return n + '_'
    if n in ('mod', 'in', 'at', 'as', 'fun', 'let', 'end', 'return', 'type', 'Type', 'Set', 'Prop', 'fix', 'if', 'then',
             'else', 'match', 'with', 'forall', 'exists', 'where', 'len'):
        n = n + '_'
    return n


class ImpTr:
    def __init__(self, em, mutable, fns=None, stmt_hook=None, tail_hook=None, ret_hook=None, lvalue_hook=None):
        self.em = em
        self.mutable = list(mutable)      # names of mutable state variables visible to this body, in order
        self.fns = fns or {}              # sibling functions: name -> (coq name, [arg kinds]) ; called with `?` or as values
        self.stmt_hook = stmt_hook
        self.tail_hook = tail_hook
        self.ret_hook = ret_hook
        self.lvalue_hook = lvalue_hook
        self.aux_defs = []
        self.named_matches = {}

    # ---------------------------------------------------------------- analysis
    def assigned(self, node, acc=None):
        """mutable variables (from self.mutable) possibly assigned inside node"""
        if acc is None:
            acc = []

        def add(n):
            if n in self.mutable and n not in acc:
                acc.append(n)

        def walk(e):
            if not isinstance(e, (tuple, list)):
                return
            if isinstance(e, tuple) and e and e[0] == 'assign':
                lv = e[2]
                while lv[0] in ('index', 'field', 'paren'):
                    lv = lv[1]
                if lv[0] == 'path':
                    add(lv[1])
            if isinstance(e, tuple) and e and e[0] == 'mcall':
                extra = self.mutating_call(e)
                for n in extra:
                    add(n)
            if isinstance(e, tuple) and e and e[0] == 'call':
                for n in self.mutating_call(e):
                    add(n)
                if e[1][0] == 'path' and e[1][1] in self.em.closures:
                    walk(self.em.closures[e[1][1]][2])
            for x in e:
                walk(x)
        walk(node)
        return [m for m in self.mutable if m in acc]

    def assigned_outer(self, blk):
        """variables assigned in blk that are declared outside it"""
        b = blk[1] if blk[0] == 'unsafe' else blk
        decl = set()
        if b[0] == 'block':
            for st in b[1]:
                if st[0] == 'let' and st[1][0] == 'ppath':
                    decl.add(st[1][1])
        return [n for n in self.assigned(blk) if n not in decl]

    def mutating_call(self, e):
        return []

    def has_return(self, node):
        if not isinstance(node, (tuple, list)):
            return False
        if isinstance(node, tuple) and node and node[0] == 'return':
            return True
        if isinstance(node, tuple) and node and node[0] == 'closure':
            return False
        return any(self.has_return(x) for x in node)

    # ---------------------------------------------------------------- helpers
    def tuple_of(self, names):
        if not names:
            return 'tt'
        if len(names) == 1:
            return coqname(names[0])
        return '(%s)' % ', '.join(coqname(n) for n in names)

    def pat_of(self, names):
        if not names:
            return 'u_'
        if len(names) == 1:
            return coqname(names[0])
        return "'(%s)" % ', '.join(coqname(n) for n in names)

    def finish(self, mode, names):
        if mode == 'plain':
            return 'Ok %s' % self.tuple_of(names)
        if mode == 'ctl':
            return 'Ok (Next %s)' % self.tuple_of(names)
        return 'Ok tt'

    def ret(self, mode, e):
        if self.ret_hook:
            r = self.ret_hook(self, mode, e)
            if r is not None:
                return r
        # `return Ok(v)` / `return Err(..)` / `return v`
        if e is not None and e[0] == 'call' and show(e[1]) == 'Err':
            return 'Err 0'
        if e is not None and e[0] == 'call' and show(e[1]) == 'Ok':
            e = e[2][0]
        if e is None or e[0] == 'unit':
            v = 'tt'
        else:
            v, _ = self.em.expr(e)
        binds = self.em.take_binds()
        if mode == 'fn':
            return Emitter.wrap_binds(binds, 'Ok %s' % v)
        if mode == 'ctl':
            return Emitter.wrap_binds(binds, 'Ok (Ret %s)' % v)
        raise Unsupported("return inside a block translated without early exit")

    def err_code(self, e):
        """error kind from the message text (the harness classifies the runtime message the same way)"""
        if not self.err_kinds:
            return 0
        txt = repr(e)
        for needle, code in self.err_kinds:
            if needle in txt:
                return code
        return self.err_default

    err_kinds = None
    err_default = 0

    def is_diverge(self, e):
        """expression that always errors/panics -> res term or None"""
        if e[0] == 'macro' and e[1] in ('panic', 'unreachable', 'unimplemented'):
            return 'Panic 0'
        if e[0] == 'try' and e[1][0] == 'call' and show(e[1][1]) in ('reject', 'Err'):
            return 'Err %d' % self.err_code(e)
        if e[0] == 'try' and e[1][0] == 'macro' and e[1][1] == 'Err':
            return 'Err 0'
        if e[0] in ('block', 'unsafe'):
            b = e if e[0] == 'block' else e[1]
            if len(b[1]) == 1 and b[1][0][0] in ('stmt', 'tail'):
                return self.is_diverge(b[1][0][1])
        return None

    # ---------------------------------------------------------------- blocks
    def block(self, blk, mode, names, tail_value=False):
        """names: variables to return in 'plain'/'ctl' modes"""
        if blk[0] == 'unsafe':
            blk = blk[1]
        if blk[0] != 'block':
            blk = ('block', [('tail', blk, -1, [])])
        saved = dict(self.em.locals)
        try:
            return self.stmts(list(blk[1]), mode, names, tail_value)
        finally:
            self.em.locals = saved

    def stmts(self, sts, mode, names, tail_value):
        em = self.em
        if not sts:
            return self.finish(mode, names)
        st, rest = sts[0], sts[1:]
        k = lambda: self.stmts(rest, mode, names, tail_value)  # noqa: E731
        if st[0] in ('stmt', 'tail', 'let') and any('rbpf_verif' in a for a in st[-1 if st[0] != 'let' else 5] or []):
            return k()   # verification hook statement: not part of the program's behaviour
        if self.stmt_hook:
            r = self.stmt_hook(self, st, k, mode, names)
            if r is not None:
                return r
        kind = st[0]
        if kind == 'macro_rules':
            self.register_macro(st)
            return k()
        if kind == 'const':
            return k()
        if kind == 'let' and st[1][0] == 'pwild' and st[3] is not None and st[3][0] in ('if', 'match', 'block', 'unsafe'):
            return self.compound(st[3], k, mode, names)
        if kind == 'let':
            return self.let_stmt(st, k)
        if kind == '__never__':
            pat, ty, e = st[1], st[2], st[3]
            if pat[0] == 'pwild':
                pat = ('ppath', '_unused')
            if pat[0] != 'ppath':
                raise Unsupported("line %s: let pattern" % st[4])
            if e is None:
                raise Unsupported("line %s: let without initialiser" % st[4])
            name = pat[1]
            if e[0] == 'closure':
                em.closures[name] = e
                return k()
            want = INT_TYPES.get(tyname(ty)) if ty is not None else None
            if e[0] in ('block', 'unsafe', 'if', 'match') and self.needs_stmt_translation(e):
                v = self.value_block(e, want)
                em.locals[name] = (coqname(name), want or self.last_type)
                return '(%s <- %s ;; %s)' % (coqname(name), v, k())
            t, tt = em.expr(e, want)
            binds = em.take_binds()
            em.locals[name] = (coqname(name), want or tt)
            return Emitter.wrap_binds(binds, '(let %s := %s in %s)' % (coqname(name), t, k()))
        if kind in ('stmt', 'tail'):
            e = st[1]
            is_last = not rest
            d = self.is_diverge(e)
            if d is not None:
                return d
            if e[0] == 'return':
                return self.ret(mode, e[1])
            if e[0] == 'assign':
                return self.assign(e, k)
            if e[0] in ('if', 'match', 'block', 'unsafe'):
                if kind == 'tail' and is_last and tail_value and mode == 'fn':
                    return self.value_block(e, None)
                return self.compound(e, k, mode, names)
            if e[0] == 'try':
                return self.try_stmt(e[1], k)
            if e[0] == 'while':
                return self.while_stmt(e, k, mode)
            if e[0] == 'unit':
                return k()
            if e[0] == 'call' and e[1][0] == 'path' and e[1][1] in em.closures and not e[2]:
                # zero-argument closure used as a local procedure (do_jump)
                body = em.closures[e[1][1]][2]
                blk = body if body[0] == 'block' else ('block', [('stmt', body, e[3], [])])
                return self.stmts(list(blk[1]) + rest, mode, names, tail_value)
            if kind == 'tail' and is_last:
                if self.tail_hook:
                    r = self.tail_hook(self, e, mode, names)
                    if r is not None:
                        return r
                if mode == 'fn':
                    return self.ret('fn', e)
            raise Unsupported("line %s: statement `%s`" % (st[2], show(e)[:80]))
        raise Unsupported("statement kind %s" % kind)

    last_type = None

    def register_macro(self, st):
        """macro_rules! name { ($x:expr) => { BODY }; }  (one rule, one expression parameter)"""
        raw = st[2]
        p = Parser(raw + [('eof', '', None, -1)])
        p.eat('(')
        p.eat('$')
        param = p.eat()[1]
        p.eat(':')
        if p.eat()[1] != 'expr':
            raise Unsupported("macro parameter kind")
        p.eat(')')
        p.eat('=>')
        body = p.block()
        if len(body[1]) != 1 or body[1][0][0] != 'tail':
            raise Unsupported("macro body is not a single expression")
        self.em.macros[st[1]] = ('$' + param, body[1][0][1])

    def let_stmt(self, st, k):
        em = self.em
        pat, ty, e = st[1], st[2], st[3]
        if pat[0] == 'pwild':
            pat = ('ppath', '_unused')
        if pat[0] != 'ppath':
            raise Unsupported("line %s: let pattern" % st[4])
        if e is None:
            raise Unsupported("line %s: let without initialiser" % st[4])
        name = pat[1]
        if e[0] == 'closure':
            em.closures[name] = e
            return k()
        want = INT_TYPES.get(tyname(ty)) if ty is not None else None
        if e[0] in ('block', 'unsafe', 'if', 'match') and self.needs_stmt_translation(e):
            v = self.value_block(e, want)
            em.locals[name] = (coqname(name), want or self.last_type)
            return '(%s <- %s ;; %s)' % (coqname(name), v, k())
        t, tt = em.expr(e, want)
        binds = em.take_binds()
        em.locals[name] = (coqname(name), want or tt)
        return Emitter.wrap_binds(binds, '(let %s := %s in %s)' % (coqname(name), t, k()))

    def needs_stmt_translation(self, e):
        """does this value expression contain statements with effects (`?`, lets, nested matches)?"""
        if e[0] in ('block', 'unsafe'):
            b = e if e[0] == 'block' else e[1]
            return len(b[1]) > 1 or (len(b[1]) == 1 and b[1][0][0] != 'tail') or \
                (len(b[1]) == 1 and self.needs_stmt_translation(b[1][0][1]))
        if e[0] == 'match':
            return True
        if e[0] == 'if':
            return self.needs_stmt_translation(e[2]) or (e[3] is not None and self.needs_stmt_translation(e[3])) \
                or e[1][0] == 'chain'
        return self.is_diverge(e) is not None

    def value_block(self, e, want):
        """translate a value-producing block/if/match with effects into a `res V` term"""
        em = self.em
        if e[0] in ('block', 'unsafe'):
            b = e if e[0] == 'block' else e[1]
            saved = dict(em.locals)
            try:
                return self.value_stmts(list(b[1]), want)
            finally:
                em.locals = saved
        if e[0] == 'if':
            c = self.cond(e[1])
            binds = em.take_binds()
            a = self.value_block(e[2], want)
            if e[3] is None:
                raise Unsupported("if without else used as a value")
            b = self.value_block(e[3], want)
            return Emitter.wrap_binds(binds, c % (a, b))
        if e[0] == 'match':
            return self.match(e, lambda body: self.value_block(body, want))
        d = self.is_diverge(e)
        if d is not None:
            return d
        t, tt = em.expr(e, want)
        self.last_type = tt
        binds = em.take_binds()
        return Emitter.wrap_binds(binds, 'Ok %s' % t)

    def value_stmts(self, sts, want):
        em = self.em
        st, rest = sts[0], sts[1:]
        if not rest:
            if st[0] != 'tail':
                d = self.is_diverge(st[1]) if st[0] == 'stmt' else None
                if d is not None:
                    return d
                raise Unsupported("line %s: block used as a value has no tail expression" % (st[2] if len(st) > 2 else '?'))
            return self.value_block(st[1], want)
        k = lambda: self.value_stmts(rest, want)  # noqa: E731
        if self.stmt_hook:
            r = self.stmt_hook(self, st, k, 'val', [])
            if r is not None:
                return r
        if st[0] == 'let':
            return self.let_stmt(st, k)
        if st[0] == 'stmt':
            e = st[1]
            d = self.is_diverge(e)
            if d is not None:
                return d
            if e[0] == 'try':
                return self.try_stmt(e[1], k)
            if e[0] == 'assign':
                return self.assign(e, k)
        raise Unsupported("line %s: statement in value block: %s" % (st[2] if len(st) > 2 else '?', st[0]))

    # ---------------------------------------------------------------- pieces
    def try_stmt(self, call, k):
        """`f(args)?;` for a sibling function returning Result<(), Error>"""
        em = self.em
        if call[0] == 'call':
            fname = show(call[1]).split('::')[-1]
            if fname in self.fns:
                t = self.call_fn(fname, call[2])
                binds = em.take_binds()
                return Emitter.wrap_binds(binds, '(u_ <- %s ;; %s)' % (t, k()))
        raise Unsupported("`?` on %s" % show(call)[:60])

    def call_fn(self, fname, args):
        cname, kinds = self.fns[fname]
        ts = []
        for a, kd in zip(args, kinds):
            if kd == 'skip':
                continue
            if kd == 'raw':
                ts.append(coqname(show(a).lstrip('&')))
                continue
            t, _ = self.em.expr(a, kd if kd in INT_TYPES.values() else None)
            ts.append(t)
        return '%s %s' % (cname, ' '.join(ts)) if ts else cname

    def assign(self, e, k):
        em = self.em
        op, lv, rv, ln = e[1], e[2], e[3], e[4]
        if self.lvalue_hook:
            r = self.lvalue_hook(self, e, k)
            if r is not None:
                return r
        if lv[0] != 'path' or lv[1] not in self.mutable:
            raise Unsupported("line %s: assignment to %s" % (ln, show(lv)))
        name = lv[1]
        cur, ty = em.expr(lv)
        if op == '=':
            if rv[0] in ('block', 'unsafe', 'if', 'match') and self.needs_stmt_translation(rv):
                v = self.value_block(rv, ty)
                return '(%s <- %s ;; %s)' % (coqname(name), v, k())
            nb = len(em.binds)
            try:
                t, _ = em.expr(rv, ty)
            except Unsupported as ex:
                if rv[0] != 'if' or 'conditional value' not in str(ex):
                    raise
                del em.binds[nb:]
                v = self.value_block(rv, ty)
                return '(%s <- %s ;; %s)' % (coqname(name), v, k())
        else:
            t, _ = em.expr(('bin', op[:-1], lv, rv, ln), ty)
        binds = em.take_binds()
        return Emitter.wrap_binds(binds, '(let %s := %s in %s)' % (coqname(name), t, k()))

    def cond(self, c):
        """condition (possibly `if let`) -> format string with two %s holes (then, else)"""
        em = self.em
        if c[0] == 'chain':
            if len(c[1]) == 1 and c[1][0][0] == 'clet':
                _, pat, e = c[1][0]
                if pat[0] == 'pctor' and pat[1] == 'Some' and e[0] == 'mcall' and e[2] == 'checked_add':
                    a, ta = em.expr(e[1])
                    b, _ = em.expr(e[3][0], ta)
                    v = pat[2][0][1]
                    em.locals[v] = (coqname(v), ta)
                    return '(match ochecked_add %s %s %s with Some %s => %%s | None => %%s end)' % (ta, a, b, coqname(v))
            raise Unsupported("let-chain condition")
        t, _ = em.expr(c)
        return '(if %s then %%s else %%s)' % t

    def compound(self, e, k, mode, names):
        """if / match / block used as a statement"""
        em = self.em
        if e[0] in ('block', 'unsafe'):
            b = e if e[0] == 'block' else e[1]
            # splice: variables declared inside go out of scope afterwards
            a = self.assigned_outer(b)
            if self.has_return(b):
                inner = self.block(b, 'ctl', a)
                return self.after_ctl(inner, a, k, mode)
            inner = self.block(b, 'plain', a)
            return mbind(self.pat_of(a), inner, k())
        a = self.assigned(e)
        if e[0] == 'if':
            saved = dict(em.locals)
            c = self.cond(e[1])
            binds = em.take_binds()
            d = self.is_diverge(e[2])
            if d is not None and e[3] is None:
                em.locals = saved
                return Emitter.wrap_binds(binds, c % (d, k()))
            if self.has_return(e):
                t = self.block(e[2], 'ctl', a)
                em.locals = saved
                f = self.block(e[3], 'ctl', a) if e[3] is not None else 'Ok (Next %s)' % self.tuple_of(a)
                inner = Emitter.wrap_binds(binds, c % (t, f))
                return self.after_ctl(inner, a, k, mode)
            t = self.block(e[2], 'plain', a)
            em.locals = saved
            f = self.block(e[3], 'plain', a) if e[3] is not None else 'Ok %s' % self.tuple_of(a)
            inner = Emitter.wrap_binds(binds, c % (t, f))
            return mbind(self.pat_of(a), inner, k())
        if e[0] == 'match':
            ctl = self.has_return(e)
            key = show(e[1])
            if key in self.named_matches:
                # emit every arm as a named definition and the dispatcher as a function of the scrutinee
                name, params, args, rty = self.named_matches[key]
                saved = dict(em.locals)
                em.locals[key] = ('sel_', em.expr(e[1])[1])
                used = {}

                def arm_tr(body, arm_pat=None):
                    pn = self.cur_arm_name
                    t = self.arm_block(body, 'ctl' if ctl else 'plain', a)
                    if pn in used:
                        used[pn] += 1
                        pn = '%s_%d' % (pn, used[pn])
                    else:
                        used[pn] = 0
                    dn = '%s_%s' % (name, pn)
                    self.aux_defs.append('Definition %s %s : %s :=\n  %s.\n' % (dn, params, rty, t))
                    return '%s %s' % (dn, args)
                inner = self.match(e, arm_tr)
                em.locals = saved
                self.aux_defs.append('Definition %s (sel_ : Z) %s : %s :=\n  %s.\n' % (name, params, rty, inner))
                sc, _ = em.expr(e[1])
                binds = em.take_binds()
                inner = Emitter.wrap_binds(binds, '%s %s %s' % (name, sc, args))
            else:
                inner = self.match(e, lambda body: self.arm_block(body, 'ctl' if ctl else 'plain', a))
            if ctl:
                return self.after_ctl(inner, a, k, mode)
            return mbind(self.pat_of(a), inner, k())
        raise Unsupported("compound %s" % e[0])

    def arm_block(self, body, mode, a):
        if body[0] == 'unit':
            return self.finish(mode, a)
        if body[0] == 'assign':
            body = ('block', [('stmt', body, body[4], [])])
        return self.block(body, mode, a)

    def after_ctl(self, inner, a, k, mode):
        if mode == 'fn':
            return '(c_ <- %s ;; match c_ with Ret r_ => Ok r_ | Next %s => %s end)' % (inner, self.pat_of(a).lstrip("'"), k())
        if mode == 'ctl':
            return '(c_ <- %s ;; match c_ with Ret r_ => Ok (Ret r_) | Next %s => %s end)' % (inner, self.pat_of(a).lstrip("'"), k())
        raise Unsupported("early return inside a plain block")

    def while_stmt(self, e, k, mode):
        """`while c { body }` -> MachInt.loop over the variables the body assigns; needs a `fuel` parameter"""
        em = self.em
        body = e[2]
        a = self.force_loop_state or self.assigned_outer(body)
        saved = dict(em.locals)
        c, _ = em.expr(e[1])
        cb = em.take_binds()
        cond = Emitter.wrap_binds(cb, 'Ok %s' % c)
        self.uses_fuel = True
        ctl = self.has_return(body)
        b = self.block(body, 'ctl' if ctl else 'plain', a)
        em.locals = saved
        if self.loop_state_type:
            fc = "(fun (s_ : %s) => let %s := s_ in %s)" % (self.loop_state_type, self.pat_of(a), cond)
            fb = "(fun (s_ : %s) => let %s := s_ in %s)" % (self.loop_state_type, self.pat_of(a), b)
        else:
            fc = '(fun %s => %s)' % (self.pat_of(a), cond)
            fb = '(fun %s => %s)' % (self.pat_of(a), b)
        if self.loop_name:
            # emit the loop condition and body as named definitions (closed over `loop_params`)
            n = self.loop_name + ('' if not self.nloops else str(self.nloops))
            self.nloops += 1
            self.aux_defs.append('Definition %s_cond %s :=\n  %s.\n' % (n, self.loop_params, fc))
            self.aux_defs.append('Definition %s_body %s :=\n  %s.\n' % (n, self.loop_params, fb))
            args = ' '.join(re.findall(r'\((\w+) :', self.loop_params))
            fc = '(%s_cond %s)' % (n, args)
            fb = '(%s_body %s)' % (n, args)
        if ctl:
            inner = 'loop_ctl fuel %s %s %s' % (fc, fb, self.tuple_of(a))
            return self.after_ctl(inner, a, k, mode)
        return mbind(self.pat_of(a), 'loop fuel %s %s %s' % (fc, fb, self.tuple_of(a)), k())

    uses_fuel = False
    loop_name = None
    force_loop_state = None
    loop_state_type = None
    nloops = 0
    loop_params = ''

    # ---------------------------------------------------------------- match
    def pat_test(self, pat, scrut_terms, types):
        """-> boolean Gallina term testing `pat` against the scrutinee component terms"""
        em = self.em
        if pat[0] == 'por':
            return '(%s)' % ' || '.join(self.pat_test(p, scrut_terms, types) for p in pat[1])
        if pat[0] == 'ptuple':
            if len(pat[1]) != len(scrut_terms):
                raise Unsupported("tuple pattern arity")
            parts = [self.pat_test(p, [s], [t]) for p, s, t in zip(pat[1], scrut_terms, types)]
            parts = [p for p in parts if p != 'true']
            return '(%s)' % ' && '.join(parts) if parts else 'true'
        if len(scrut_terms) != 1:
            if pat[0] == 'pwild':
                return 'true'
            raise Unsupported("pattern on tuple scrutinee")
        s, ty = scrut_terms[0], types[0]
        if pat[0] == 'pwild':
            return 'true'
        if pat[0] == 'pnum':
            return '(%s =? %s)' % (s, '(%d)' % pat[1] if pat[1] < 0 else pat[1])
        if pat[0] == 'prange':
            lo, hi, incl = pat[1], pat[2], pat[3]
            return '((%d <=? %s) && (%s %s %d))' % (lo, s, s, '<=?' if incl else '<?', hi)
        if pat[0] == 'ppath':
            if pat[1] == 'true':
                return s
            if pat[1] == 'false':
                return '(negb %s)' % s
            c = em.lookup_const(pat[1])
            if c is not None:
                return '(%s =? %s)' % (s, pat[1].split('::')[-1])
            raise Unsupported("binding pattern %s" % pat[1])
        raise Unsupported("pattern %s" % pat[0])

    cur_arm_name = None

    def arm_name(self, pat, guard):
        p = pat
        while p[0] == 'por':
            p = p[1][0]
        if p[0] == 'ppath':
            n = p[1].split('::')[-1]
        elif p[0] == 'pnum':
            n = 'n%d' % p[1] if p[1] >= 0 else 'm%d' % -p[1]
        elif p[0] == 'pwild':
            n = 'default'
        else:
            n = p[0]
        return n + ('_g' if guard is not None else '')

    def match(self, e, arm_tr):
        em = self.em
        scrut = e[1]
        while scrut[0] == 'paren':
            scrut = scrut[1]
        if scrut[0] == 'tuple':
            parts = [em.expr(x) for x in scrut[1]]
        else:
            parts = [em.expr(scrut)]
        binds = em.take_binds()
        terms = [p[0] for p in parts]
        types = [p[1] for p in parts]
        out = None
        arms = e[2]
        # build from the last arm backwards
        chain = []
        for pat, guard, body, ln, attrs in arms:
            if any('cfg' in a and 'not' in a and 'target_has_atomic' in a for a in attrs):
                continue  # x86-64 has 64-bit atomics
            test = self.pat_test(pat, terms, types)
            if guard is not None:
                g, _ = em.expr(guard)
                if em.binds:
                    raise Unsupported("checked arithmetic in a match guard")
                test = '(%s && %s)' % (test, g) if test != 'true' else g
            saved = dict(em.locals)
            self.cur_arm_name = self.arm_name(pat, guard)
            t = arm_tr(body)
            em.locals = saved
            chain.append((test, t))
        if not chain:
            raise Unsupported("empty match")
        last_test, last_t = chain[-1]
        if last_test == 'true':
            out = last_t
            chain = chain[:-1]
        else:
            out = 'Panic 0'   # non-exhaustive integer match cannot compile in Rust; unreachable
        for test, t in reversed(chain):
            out = '(if %s then %s else %s)' % (test, t, out)
        return Emitter.wrap_binds(binds, out)
