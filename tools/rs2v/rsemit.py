"""rs2v: typed translation of Rust integer/boolean expressions to Gallina terms over RbpfV.MachInt.

Every integer expression of Rust type T is translated to a Z-valued term whose value is the
mathematical value of the Rust expression (hence inside T's range when the leaves are).
Non-wrapping operators become *checked* operations in the `res` monad: they are hoisted, in
evaluation order, into `binds` (list of (var, term)) and the hoisted variable is used instead.
"""
from rsparse import Unsupported, tyname

INT_TYPES = {'u8': 'U8', 'u16': 'U16', 'u32': 'U32', 'u64': 'U64', 'usize': 'USZ',
             'i8': 'I8', 'i16': 'I16', 'i32': 'I32', 'i64': 'I64', 'isize': 'ISZ'}
SIGNED = {'I8', 'I16', 'I32', 'I64', 'ISZ'}


def show(e):
    """canonical text of an AST node (used as key of the leaf table)"""
    k = e[0]
    if k == 'num':
        return str(e[1])
    if k == 'path':
        return e[1]
    if k == 'paren':
        return show(e[1])
    if k == 'field':
        return '%s.%s' % (show(e[1]), e[2])
    if k == 'tfield':
        return '%s.%d' % (show(e[1]), e[2])
    if k == 'index':
        return '%s[%s]' % (show(e[1]), show(e[2]))
    if k == 'mcall':
        nm = e[2] if isinstance(e[2], str) else e[2][0]
        return '%s.%s(%s)' % (show(e[1]), nm, ','.join(show(a) for a in e[3]))
    if k == 'call':
        return '%s(%s)' % (show(e[1]), ','.join(show(a) for a in e[2]))
    if k == 'as':
        return '(%s as %s)' % (show(e[1]), tyname(e[2]))
    if k == 'bin':
        return '(%s %s %s)' % (show(e[2]), e[1], show(e[3]))
    if k == 'un':
        return '(%s%s)' % (e[1], show(e[2]))
    if k == 'ref':
        return '&' + show(e[1])
    if k == 'range':
        return '%s%s%s' % (show(e[2]) if e[2] else '', e[1], show(e[3]) if e[3] else '')
    if k == 'str':
        return e[1]
    if k == 'macro':
        return e[1] + '!(..)'
    if k == 'unit':
        return '()'
    return '<%s>' % k


def zlit(v):
    return '(%d)' % v if v < 0 else '%d' % v


class Emitter:
    def __init__(self, consts=None, leaves=None, macros=None, closures=None):
        self.consts = consts or {}     # name -> (ity, int value)
        self.leaves = leaves or {}     # canonical text -> (coq term, type)
        self.macros = macros or {}     # name -> (param, body AST) for one-argument macro_rules
        self.closures = closures or {}
        self.binds = []                # hoisted checked operations
        self.nfresh = 0
        self.locals = {}               # rust local -> (coq term, type)

    def fresh(self, base='v'):
        self.nfresh += 1
        return '%s%d' % (base, self.nfresh)

    def hoist(self, term):
        v = self.fresh()
        self.binds.append((v, term))
        return v

    def take_binds(self):
        b = self.binds
        self.binds = []
        return b

    @staticmethod
    def wrap_binds(binds, body):
        """body is a `res` term"""
        out = body
        for v, t in reversed(binds):
            out = '(%s <- %s ;; %s)' % (v, t, out)
        return out

    # ------------------------------------------------------------------
    def lookup_const(self, name):
        n = name.split('::')[-1]
        if name in self.consts:
            return self.consts[name]
        if n in self.consts:
            return self.consts[n]
        return None

    def const_value(self, e):
        while e[0] == 'paren':
            e = e[1]
        if e[0] == 'num':
            return e[1]
        if e[0] == 'path':
            c = self.lookup_const(e[1])
            return c[1] if c is not None else None
        if e[0] == 'un' and e[1] == '-':
            v = self.const_value(e[2])
            return -v if v is not None else None
        return None

    def is_literal(self, e):
        while e[0] == 'paren':
            e = e[1]
        return e[0] == 'num' and e[2] is None or (e[0] == 'un' and e[1] == '-' and self.is_literal(e[2]))

    def expr(self, e, expect=None):
        """-> (coq term : Z or bool, type)"""
        key = show(e)
        if key in self.locals:
            return self.locals[key]
        if key in self.leaves:
            return self.leaves[key]
        k = e[0]
        if k == 'paren':
            return self.expr(e[1], expect)
        if k == 'num':
            ty = INT_TYPES.get(e[2]) if e[2] else expect
            if ty is None:
                ty = 'I32'
            return zlit(e[1]), ty
        if k == 'path':
            c = self.lookup_const(e[1])
            if c is not None:
                return zlit(c[1]), c[0]
            if e[1] == 'true':
                return 'true', 'BOOL'
            if e[1] == 'false':
                return 'false', 'BOOL'
            if e[1].startswith('core::mem::align_of::<') or e[1].startswith('align_of::<'):
                tn = e[1].split('<')[1].rstrip('>')
                return str({'u8': 1, 'u16': 2, 'u32': 4, 'u64': 8}[tn]), 'USZ'
            if e[1].endswith('::MAX') or e[1].endswith('::MIN'):
                tn, which = e[1].split('::')
                ty = INT_TYPES[tn]
                return ('(tmax %s)' % ty if which == 'MAX' else '(tmin %s)' % ty), ty
            raise Unsupported("unknown name %s" % e[1])
        if k == 'as':
            tn = tyname(e[2])
            if tn in INT_TYPES:
                to = INT_TYPES[tn]
                if self.is_literal(e[1]):
                    t, _ = self.expr(e[1], to if not self._neg_lit(e[1]) else None)
                    return '(cast %s %s)' % (to, t), to
                t, frm = self.expr(e[1])
                if frm == 'BOOL':
                    return '(if %s then 1 else 0)' % t, to
                if frm.startswith('PTR'):
                    frm = 'U64'
                    if to in ('U64', 'USZ'):
                        return t, to
                if frm == to:
                    return t, to
                return '(cast %s %s)' % (to, t), to
            if tn.startswith('*'):
                # pointer casts keep the address: value-preserving on a 64-bit target
                pointee = tn.split()[-1]
                pty = 'PTR:' + {'AtomicU32': 'A32', 'AtomicU64': 'A64'}.get(pointee, INT_TYPES.get(pointee, '?'))
                t, frm = self.expr(e[1])
                if frm in ('U64', 'USZ') or frm.startswith('PTR'):
                    return t, pty
                return '(cast U64 %s)' % t, pty
            raise Unsupported("cast to %s" % tn)
        if k == 'un':
            op = e[1]
            if op == '-':
                if self.is_literal(e[2]):
                    t, ty = self.expr(e[2], expect)
                    return '(- %s)' % t, ty
                t, ty = self.expr(e[2], expect)
                if ty not in SIGNED:
                    raise Unsupported("negation of unsigned")
                return self.hoist('cneg %s 0 %s' % (ty, t)), ty
            if op == '!':
                t, ty = self.expr(e[2], expect)
                if ty == 'BOOL':
                    return '(negb %s)' % t, 'BOOL'
                return '(norm %s (Z.lnot %s))' % (ty, t), ty
            if op == '*':
                return self.expr(e[2], expect)
            raise Unsupported("unary %s" % op)
        if k == 'ref':
            return self.expr(e[1], expect)
        if k == 'bin':
            return self.binop(e, expect)
        if k == 'mcall':
            return self.mcall(e, expect)
        if k == 'macro':
            if e[1] in self.macros:
                param, body = self.macros[e[1]]
                from rsparse import Parser
                arg = Parser(e[2] + [('eof', '', None, -1)]).expr()
                saved = dict(self.locals)
                self.locals[param] = self.expr(arg)
                try:
                    return self.expr(body, expect)
                finally:
                    self.locals = saved
            raise Unsupported("macro %s!" % e[1])
        if k == 'call' and e[1][0] == 'path' and 'align_of::<' in e[1][1] and not e[2]:
            return self.expr(e[1], expect)
        if k == 'if':
            c, _ = self.expr(e[1])
            nb = len(self.binds)
            a, ta = self.block_value(e[2], expect)
            if e[3] is None:
                raise Unsupported("if without else as value")
            b, tb = self.block_value(e[3], expect or ta)
            if len(self.binds) != nb:
                raise Unsupported("checked arithmetic inside a conditional value")
            return '(if %s then %s else %s)' % (c, a, b), ta
        if k == 'block' or k == 'unsafe':
            return self.block_value(e if k == 'block' else e[1], expect)
        raise Unsupported("expression kind %s: %s" % (k, key))

    def _neg_lit(self, e):
        while e[0] == 'paren':
            e = e[1]
        return e[0] == 'un'

    def block_value(self, b, expect=None):
        if b[0] != 'block':
            return self.expr(b, expect)
        saved = dict(self.locals)
        try:
            for st in b[1][:-1]:
                self.let_stmt(st)
            last = b[1][-1]
            if last[0] != 'tail':
                raise Unsupported("block without tail value")
            return self.expr(last[1], expect)
        finally:
            self.locals = saved

    def let_stmt(self, st):
        if st[0] == 'let' and st[1][0] == 'ppath' and st[3] is not None:
            ty = None
            if st[2] is not None and tyname(st[2]) in INT_TYPES:
                ty = INT_TYPES[tyname(st[2])]
            t, tt = self.expr(st[3], ty)
            self.locals[st[1][1]] = (t, ty or tt)
            return
        raise Unsupported("statement in value block: %s" % (st[0],))

    def binop(self, e, expect):
        op, l, r, ln = e[1], e[2], e[3], e[4]
        if op in ('&&', '||'):
            a, _ = self.expr(l)
            nb = len(self.binds)
            b, _ = self.expr(r)
            if len(self.binds) != nb:
                # the right operand is evaluated (and may panic) only when the left one does not decide
                rb = self.binds[nb:]
                del self.binds[nb:]
                inner = Emitter.wrap_binds(rb, 'Ok %s' % b)
                if op == '&&':
                    return self.hoist('(if %s then %s else Ok false)' % (a, inner)), 'BOOL'
                return self.hoist('(if %s then Ok true else %s)' % (a, inner)), 'BOOL'
            return '(%s %s %s)' % (a, op, b), 'BOOL'
        if op in ('<<', '>>'):
            a, ta = self.expr(l, expect)
            b, _ = self.expr(r, 'U32')
            f = 'cshl' if op == '<<' else 'cshr'
            return self.hoist('%s %s 0 %s %s' % (f, ta, a, b)), ta
        # operand types: a literal takes the other side's type
        if self.is_literal(l) and not self.is_literal(r):
            b, tb = self.expr(r, expect)
            a, ta = self.expr(l, tb)
        else:
            a, ta = self.expr(l, expect if op not in ('==', '!=', '<', '>', '<=', '>=') else None)
            b, tb = self.expr(r, ta)
        if ta.startswith('PTR'):
            ta = 'U64'
        if tb.startswith('PTR'):
            tb = 'U64'
        if ta != tb and not (self.is_literal(l) or self.is_literal(r)):
            raise Unsupported("line %s: operand types differ: %s %s %s" % (ln, ta, op, tb))
        if op in ('==', '!=', '<', '>', '<=', '>='):
            if ta == 'BOOL':
                if op == '==':
                    return '(Bool.eqb %s %s)' % (a, b), 'BOOL'
                if op == '!=':
                    return '(negb (Bool.eqb %s %s))' % (a, b), 'BOOL'
                raise Unsupported("bool comparison")
            m = {'==': '(%s =? %s)', '!=': '(negb (%s =? %s))', '<': '(%s <? %s)',
                 '<=': '(%s <=? %s)', '>': '(%s >? %s)', '>=': '(%s >=? %s)'}[op]
            return m % (a, b), 'BOOL'
        if op in ('&', '|', '^'):
            if ta == 'BOOL':
                f = {'&': 'andb', '|': 'orb', '^': 'xorb'}[op]
                return '(%s %s %s)' % (f, a, b), 'BOOL'
            f = {'&': 'Z.land', '|': 'Z.lor', '^': 'Z.lxor'}[op]
            return '(%s %s %s)' % (f, a, b), ta
        if op in ('/', '%'):
            # division by a non-zero constant (other than -1) cannot panic: keep it pure
            cv = self.const_value(r)
            if cv is not None and cv != 0 and cv != -1:
                if ta in SIGNED:
                    return '(%s %s %s)' % ('Z.quot' if op == '/' else 'Z.rem', a, b), ta
                return '(%s %s %s)' % (a, '/' if op == '/' else 'mod', b), ta
        f = {'+': 'cadd', '-': 'csub', '*': 'cmul', '/': 'cdiv', '%': 'crem'}[op]
        return self.hoist('%s %s 0 %s %s' % (f, ta, a, b)), ta

    def mcall(self, e, expect):
        recv, name, args, ln = e[1], e[2], e[3], e[4]
        if not isinstance(name, str):
            name = name[0]
        W = {'wrapping_add': 'wadd', 'wrapping_sub': 'wsub', 'wrapping_mul': 'wmul'}
        if name in W:
            a, ta = self.expr(recv, expect)
            b, _ = self.expr(args[0], ta)
            return '(%s %s %s %s)' % (W[name], ta, a, b), ta
        if name == 'wrapping_neg':
            a, ta = self.expr(recv, expect)
            return '(wneg %s %s)' % (ta, a), ta
        if name in ('wrapping_shl', 'wrapping_shr'):
            a, ta = self.expr(recv, expect)
            b, _ = self.expr(args[0], 'U32')
            return '(%s %s %s %s)' % ('wshl' if name == 'wrapping_shl' else 'wshr', ta, a, b), ta
        if name in ('to_le', 'to_be', 'swap_bytes'):
            a, ta = self.expr(recv, expect)
            return '(%s %s %s)' % (name, ta, a), ta
        if name == 'is_multiple_of':
            a, ta = self.expr(recv)
            b, _ = self.expr(args[0], ta)
            return '(is_multiple_of %s %s)' % (a, b), 'BOOL'
        if name == 'wrapping_offset':
            a, ta = self.expr(recv)
            b, tb = self.expr(args[0], 'ISZ')
            return '(wadd U64 %s %s)' % (a, b), ta
        if name == 'read_unaligned':
            a, ta = self.expr(recv)
            if not ta.startswith('PTR:') or ta[4:] not in SIGNED | {'U8', 'U16', 'U32', 'U64'}:
                raise Unsupported("line %s: read_unaligned on %s" % (ln, ta))
            w = {'U8': 1, 'U16': 2, 'U32': 4, 'U64': 8}[ta[4:]]
            return '(mload m %s %d)' % (a, w), ta[4:]
        if name == 'div_ceil':
            a, ta = self.expr(recv, expect)
            b, _ = self.expr(args[0], ta)
            return '(div_ceil %s %s)' % (a, b), ta
        if name == 'leading_zeros':
            a, ta = self.expr(recv)
            return '(leading_zeros %s %s)' % (ta, a), 'U32'
        raise Unsupported("line %s: method %s" % (ln, name))
