"""Shared machinery of bin/check: regeneration (tie A), Coq build, harness build and execution,
model evaluation inside coqc (tie B), evidence and verdicts.  Python 3 stdlib only."""
import concurrent.futures as cf
import fcntl
import hashlib
import json
import os
import re
import subprocess
import sys
import time

VERIF = os.path.dirname(os.path.dirname(os.path.abspath(__file__)))
REPO = os.environ.get('VERIF_REPO', '/repo')
COQ = os.path.join(VERIF, 'coq')
HARNESS = os.path.join(VERIF, 'harness')
WORK = os.path.join(VERIF, 'work')
NPROC = int(os.environ.get('VERIF_JOBS', '16'))

ENV = dict(os.environ, CARGO_NET_OFFLINE='true')


class Broken(Exception):
    pass


def log(*a):
    print(*a, file=sys.stderr, flush=True)


# ------------------------------------------------------------------ PRNG (splitmix64)

class Rng:
    def __init__(self, seed):
        self.s = seed & (2 ** 64 - 1)

    def next(self):
        self.s = (self.s + 0x9E3779B97F4A7C15) & (2 ** 64 - 1)
        z = self.s
        z = ((z ^ (z >> 30)) * 0xBF58476D1CE4E5B9) & (2 ** 64 - 1)
        z = ((z ^ (z >> 27)) * 0x94D049BB133111EB) & (2 ** 64 - 1)
        return z ^ (z >> 31)

    def below(self, n):
        return self.next() % n

    def choice(self, xs):
        return xs[self.below(len(xs))]

    def chance(self, num, den):
        return self.below(den) < num

    def fork(self, tag):
        h = hashlib.sha256(('%d/%s' % (self.s, tag)).encode()).digest()
        return Rng(int.from_bytes(h[:8], 'little'))


# ------------------------------------------------------------------ locking

class Lock:
    def __init__(self, name='build'):
        os.makedirs(WORK, exist_ok=True)
        self.path = os.path.join(WORK, name + '.lock')

    def __enter__(self):
        self.f = open(self.path, 'w')
        fcntl.flock(self.f, fcntl.LOCK_EX)
        return self

    def __exit__(self, *a):
        fcntl.flock(self.f, fcntl.LOCK_UN)
        self.f.close()


# ------------------------------------------------------------------ tie A: regeneration

def regen(units=None):
    """run the translator; returns {unit: {'ok': bool, ...}}"""
    cmd = [sys.executable, os.path.join(VERIF, 'tools', 'rs2v', 'main.py'), os.path.join(REPO, 'src'),
           os.path.join(COQ, 'gen')] + (units or [])
    p = subprocess.run(cmd, capture_output=True, text=True)
    for l in p.stdout.splitlines():
        log('  rs2v:', l)
    if p.returncode != 0:
        log(p.stderr)
    st = json.load(open(os.path.join(COQ, 'gen', 'status.json')))
    # snapshot fallback (DESIGN 2.2): a unit the translator cannot handle keeps the committed model
    for u, v in st.items():
        g = os.path.join(COQ, 'gen', u + '.v')
        sn = os.path.join(COQ, 'gen-snapshot', u + '.v')
        if not v.get('ok') and os.path.exists(sn):
            if (not os.path.exists(g)) or open(g).read() != open(sn).read():
                open(g, 'w').write(open(sn).read())
    return st


# ------------------------------------------------------------------ Coq build

def coq_makefile():
    mk = os.path.join(COQ, 'Makefile')
    proj = os.path.join(COQ, '_CoqProject')
    files = []
    for d in ('theories', 'gen', 'props'):
        for f in sorted(os.listdir(os.path.join(COQ, d))):
            if f.endswith('.v'):
                files.append('%s/%s' % (d, f))
    base = open(proj).read().split('#FILES')[0]
    text = base + '#FILES\n' + '\n'.join(files) + '\n'
    if open(proj).read() != text:
        open(proj, 'w').write(text)
    if (not os.path.exists(mk)) or os.path.getmtime(mk) < os.path.getmtime(proj):
        subprocess.run(['coq_makefile', '-f', '_CoqProject', '-o', 'Makefile'], cwd=COQ, check=True,
                       capture_output=True)


def coq_make(targets, timeout=1500):
    """make the given .vo targets. -> (ok, output, failing_file, failing_detail)"""
    coq_makefile()
    # every sentence gets a time limit (the slowest one takes ~35 s): a proof that no longer goes through must fail,
    # not diverge (a `reflexivity` on two different symbolic strings can run for hours)
    cmd = ['timeout', str(timeout), 'make', '-j%d' % NPROC, '-k', 'COQEXTRAFLAGS=-set "Default Timeout=400"'] + targets
    t0 = time.time()
    p = subprocess.run(cmd, cwd=COQ, capture_output=True, text=True)
    out = p.stdout + p.stderr
    ok = p.returncode == 0
    fail_file, detail = None, None
    if not ok:
        m = re.search(r'File "\./([^"]+)", line (\d+), characters [\d-]+:\n((?:.*\n){1,12})', out)
        if m:
            fail_file = m.group(1)
            detail = 'line %s: %s' % (m.group(2), m.group(3).strip()[:600])
        else:
            detail = out[-800:]
    log('  coq make %s: %s in %.1fs' % (' '.join(targets), 'ok' if ok else 'FAILED', time.time() - t0))
    return ok, out, fail_file, detail


def lemma_at(path, line):
    """name of the Lemma/Theorem whose proof contains `line` of file `path`"""
    name = None
    try:
        for i, l in enumerate(open(os.path.join(COQ, path)), 1):
            m = re.match(r'\s*(?:Lemma|Theorem|Corollary|Example|Fact|Definition|Instance)\s+(\w+)', l)
            if m:
                name = m.group(1)
            if i >= line:
                break
    except OSError:
        pass
    return name


def assumptions(prop_vo_out, prop):
    """parse `Print Assumptions` output of props/<prop>.v from the make log -> list of axiom names"""
    axioms = []
    closed = 0
    cur = False
    for l in prop_vo_out.splitlines():
        if 'Closed under the global context' in l:
            closed += 1
            cur = False
        elif l.startswith('Axioms:'):
            cur = True
        elif cur:
            m = re.match(r'^(\S+)\s*:', l)
            if m:
                axioms.append(m.group(1))
            elif l.strip() == '' or not l.startswith(' '):
                pass
    return closed, sorted(set(axioms))


FORBIDDEN = re.compile(r'\b(Admitted|admit|Axiom|Axioms|Parameter|Parameters|Conjecture|Abort All|Unset Guard Checking|'
                       r'bypass_check|Unset Positivity Checking|Unset Universe Checking|Admit Obligations|give_up)\b')


def hygiene():
    """scan the development for forbidden constructs; -> list of 'file:line: text'"""
    bad = []
    for d in ('theories', 'gen', 'props'):
        for f in sorted(os.listdir(os.path.join(COQ, d))):
            if not f.endswith('.v'):
                continue
            depth = 0
            in_comment = 0
            for i, l in enumerate(open(os.path.join(COQ, d, f)), 1):
                # strip comments (nested)
                out = ''
                j = 0
                while j < len(l):
                    if l.startswith('(*', j):
                        in_comment += 1
                        j += 2
                    elif l.startswith('*)', j) and in_comment:
                        in_comment -= 1
                        j += 2
                    else:
                        if not in_comment:
                            out += l[j]
                        j += 1
                if re.match(r'\s*Section\b', out):
                    depth += 1
                if re.match(r'\s*End\b', out) and depth:
                    depth -= 1
                if FORBIDDEN.search(out):
                    bad.append('%s/%s:%d: %s' % (d, f, i, out.strip()))
                if depth == 0 and re.match(r'\s*(Variable|Variables|Hypothesis|Hypotheses|Context)\b', out):
                    bad.append('%s/%s:%d: %s (outside a section)' % (d, f, i, out.strip()))
    return bad


# ------------------------------------------------------------------ harness

def harness_build(profile='debug', nostd=False):
    tdir = os.path.join(HARNESS, 'target' + ('-nostd' if nostd else ''))
    lock = os.path.join(HARNESS, 'Cargo.lock')
    src_lock = os.path.join(REPO, 'Cargo.lock')
    if os.path.exists(src_lock) and (not os.path.exists(lock)):
        open(lock, 'w').write(open(src_lock).read())
    cmd = ['cargo', 'build', '--offline', '--target-dir', tdir]
    if profile == 'release':
        cmd.append('--release')
    if nostd:
        cmd += ['--no-default-features']
    env = dict(ENV, RUSTFLAGS='--cfg rbpf_verif')
    t0 = time.time()
    p = subprocess.run(cmd, cwd=HARNESS, capture_output=True, text=True, env=env)
    log('  harness build (%s%s): %s in %.1fs' % (profile, ' nostd' if nostd else '', 'ok' if p.returncode == 0 else 'FAILED', time.time() - t0))
    if p.returncode != 0:
        log(p.stderr[-3000:])
        raise Broken('harness build failed: ' + p.stderr[-1500:])
    return os.path.join(tdir, profile, 'rbpf-verif-harness')


def _run_shard(args):
    binary, lines, timeout = args
    p = subprocess.run([binary], input='\n'.join(lines) + '\n', capture_output=True, text=True, timeout=timeout)
    out = p.stdout.splitlines()
    if len(out) != len(lines):
        # the harness process itself died: report which case
        out = out + ['HARNESS-DIED rc=%s' % p.returncode] * (len(lines) - len(out))
    return out


def harness_run(binary, lines, shards=None, timeout=900):
    """run the request lines through the harness (sharded, order preserved)"""
    if not lines:
        return []
    n = shards or min(NPROC, max(1, len(lines) // 50))
    chunks = [lines[i::n] for i in range(n)]
    with cf.ThreadPoolExecutor(n) as ex:
        outs = list(ex.map(_run_shard, [(binary, c, timeout) for c in chunks]))
    res = [None] * len(lines)
    for k, o in enumerate(outs):
        for j, v in enumerate(o):
            res[k + j * n] = v
    return res


# ------------------------------------------------------------------ model evaluation inside coqc

COQ_ARGS = ['-Q', os.path.join(COQ, 'theories'), 'RbpfV', '-Q', os.path.join(COQ, 'gen'), 'RbpfV.gen',
            '-w', '-notation-overridden,-abstract-large-number,-deprecated-hint-without-locality']


def _coq_shard(args):
    path, timeout = args
    t0 = time.time()
    p = subprocess.run(['timeout', str(timeout), 'coqc', '-noglob'] + COQ_ARGS + [path], capture_output=True, text=True)
    return p.returncode, p.stdout, p.stderr, time.time() - t0


def parse_zlist(txt):
    """parse the printed value of `Eval vm_compute in (l : list Z)`"""
    m = re.search(r'=\s*(\[.*?\]|nil)\s*:\s*list', txt, re.S)
    if not m:
        return None
    body = m.group(1)
    if body == 'nil':
        return []
    return [int(x.replace('%Z', '')) for x in re.findall(r'-?\d+', body)]


def coq_eval(tag, header, case_terms, check_fn, shard_size=400, timeout=600):
    """Evaluate `check_fn : case -> Z` (0 = agree) on every case term inside Coq (vm_compute), sharded.
    `case_terms` are Gallina terms (strings).  Returns ([(index, code)], errors).
    Convention for codes: 1 = model differs from implementation (tie B broken),
    2 = implementation differs from the specification (property violated), 3 = both."""
    d = os.path.join(WORK, 'cases', tag)
    os.makedirs(d, exist_ok=True)
    for f in os.listdir(d):
        os.unlink(os.path.join(d, f))
    shards = []
    n = len(case_terms)
    nsh = max(1, min((n + shard_size - 1) // shard_size, 4 * NPROC))
    for k in range(nsh):
        idx = list(range(k, n, nsh))
        if not idx:
            continue
        path = os.path.join(d, 'S%d.v' % k)
        with open(path, 'w') as f:
            f.write(header)
            f.write('\nDefinition cases := [\n')
            f.write(';\n'.join('  (%d, %s)' % (i, case_terms[i]) for i in idx))
            f.write('\n].\n')
            f.write('Definition bad := flat_map (fun c => let r := %s (snd c) in if r =? 0 then [] else [fst c; r]) cases.\n' % check_fn)
            f.write('Eval vm_compute in bad.\n')
        shards.append(path)
    bad, errors = [], []
    with cf.ThreadPoolExecutor(NPROC) as ex:
        for path, (rc, out, err, dt) in zip(shards, ex.map(_coq_shard, [(s, timeout) for s in shards])):
            if rc != 0:
                errors.append('%s: rc=%s %s' % (path, rc, (err or out)[-500:]))
                continue
            l = parse_zlist(out)
            if l is None:
                errors.append('%s: cannot parse %r' % (path, out[-300:]))
            else:
                bad.extend(zip(l[0::2], l[1::2]))
    return sorted(bad), errors


def coq_show(tag, header, term, timeout=120):
    """evaluate one term and return the printed text"""
    d = os.path.join(WORK, 'cases', tag)
    os.makedirs(d, exist_ok=True)
    path = os.path.join(d, 'Show.v')
    with open(path, 'w') as f:
        f.write(header)
        f.write('\nEval vm_compute in (%s).\n' % term)
    rc, out, err, dt = _coq_shard((path, timeout))
    return (out if rc == 0 else 'ERROR: ' + err[-500:]).strip()


def zhex(b):
    """bytes -> Gallina term of type list Z (decoded in Coq from one number)"""
    if len(b) == 0:
        return '(hexbytes 0 0)'
    b = bytes(b)
    if len(b) <= 64:
        return '(hexbytes %d 0x%s)' % (len(b), b.hex())
    # decoding one number is quadratic in its length: long data is written as a concatenation of 64-byte pieces
    parts = ['(hexbytes %d 0x%s)' % (len(b[k:k + 64]), b[k:k + 64].hex()) for k in range(0, len(b), 64)]
    return '(List.concat [%s])' % '; '.join(parts)


# ------------------------------------------------------------------ known findings

def known_findings(prop):
    """-> list of (key, description) for `known:` entries of this property"""
    out = []
    p = os.path.join(VERIF, 'KNOWN_FINDINGS.txt')
    if not os.path.exists(p):
        return out
    for l in open(p):
        l = l.strip()
        m = re.match(r'known:\s+property=(\w+)\s+key=(\S+)\s+(.*)', l)
        if m and m.group(1) == prop:
            out.append((m.group(2), m.group(3)))
    return out


# ------------------------------------------------------------------ verdict / evidence

class Check:
    def __init__(self, prop, tier, seed):
        self.prop, self.tier, self.seed = prop, tier, seed
        self.t0 = time.time()
        self.violations = []       # (replay dict, no_input_found)
        self.known_hits = {}       # key -> count
        self.cov = {'evaluations': 0, 'distinct_nontrivial': 0, 'samples': [], 'obligations': 0, 'discharged': 0,
                    'trusted_base': [], 'checker_cmd': '', 'rule': '', 'explanation': ''}
        self.assumptions = []
        self.notes = []
        self.level = 'proof'

    def violation(self, replay, no_input=False):
        self.violations.append((replay, no_input))

    def known(self, key):
        self.known_hits[key] = self.known_hits.get(key, 0) + 1

    def finish(self):
        os.makedirs(os.path.join(VERIF, 'evidence'), exist_ok=True)
        os.makedirs(os.path.join(VERIF, 'replays'), exist_ok=True)
        kf = dict(known_findings(self.prop))
        for key, cnt in sorted(self.known_hits.items()):
            print('KNOWN-FINDING: property=%s %s (%d cases) -- %s' % (self.prop, key, cnt, kf.get(key, '')))
        rc = 0
        # concrete failing inputs first, broken obligations / ties without an input after them
        ordered = [v for v in self.violations if not v[1]] + [v for v in self.violations if v[1]]
        for k, (replay, no_input) in enumerate(ordered[:20]):
            h = hashlib.sha256(json.dumps(replay, sort_keys=True).encode()).hexdigest()[:10]
            path = os.path.join(VERIF, 'replays', '%s-%s.json' % (self.prop, h))
            replay = dict(replay, property=self.prop, seed=self.seed, tier=self.tier)
            json.dump(replay, open(path, 'w'), indent=1)
            print('VIOLATION property=%s replay=%s%s' % (self.prop, path, ' no-failing-input-found' if no_input else ''))
            rc = 1
        ev = {'property_id': self.prop, 'tier': self.tier, 'seed': self.seed, 'level': self.level,
              'coverage': self.cov, 'assumptions': self.assumptions, 'wall_s': round(time.time() - self.t0, 2),
              'violations': len(self.violations), 'known_findings_hit': self.known_hits, 'notes': self.notes}
        json.dump(ev, open(os.path.join(VERIF, 'evidence', self.prop + '.json'), 'w'), indent=1)
        return rc


# ------------------------------------------------------------------ proof stage shared by all checks

STD_AXIOMS = {
    'Coq.Logic.FunctionalExtensionality.functional_extensionality_dep', 'functional_extensionality_dep',
    'Coq.Logic.Classical_Prop.classic', 'classic',
    'ClassicalDedekindReals.sig_forall_dec', 'sig_forall_dec', 'ClassicalDedekindReals.sig_not_dec', 'sig_not_dec',
    'Coq.Logic.Eqdep.Eq_rect_eq.eq_rect_eq', 'Eqdep.Eq_rect_eq.eq_rect_eq', 'Eq_rect_eq.eq_rect_eq',
    'Coq.Logic.JMeq.JMeq_eq', 'JMeq_eq', 'proof_irrelevance',
}


def count_qed(path, upto=None):
    n = 0
    try:
        for i, l in enumerate(open(os.path.join(COQ, path)), 1):
            if upto is not None and i >= upto:
                break
            if re.search(r'\bQed\.', l):
                n += 1
    except OSError:
        pass
    return n


def prove(chk, units, model_targets, prop, proof_files, allow_axioms=()):
    """Regenerate, build the models and the property file.  Returns dict:
       {'model_ok', 'proof_ok', 'tieA': {unit: status}, 'broken': (file, lemma, detail) | None}"""
    res = {'broken': None}
    with Lock():
        st = regen(units)
        res['tieA'] = {u: st.get(u, {}) for u in units}
        ok_m, out_m, ff, detail = coq_make(model_targets)
        res['model_ok'] = ok_m
        if not ok_m:
            res['proof_ok'] = False
            res['broken'] = (ff, lemma_at(ff, 10 ** 9) if ff else None, detail)
            # the model regenerated from the current source does not even build (the translator met a shape it renders wrongly):
            # the tie is broken; so that the search for a concrete failing input can still run against the specification, fall
            # back to the committed snapshot of that unit (the broken obligation stays reported)
            tried = set()
            while (not ok_m) and ff and ff.startswith('gen/') and ff not in tried:
                tried.add(ff)
                sn = os.path.join(COQ, 'gen-snapshot', os.path.basename(ff))
                if not os.path.exists(sn):
                    break
                open(os.path.join(COQ, ff), 'w').write(open(sn).read())
                log('  regenerated %s does not build: using the committed snapshot for the counterexample search' % ff)
                ok_m, out_m, ff, detail = coq_make(model_targets)
            if ok_m:
                res['model_ok'] = True
                res['snapshot_fallback'] = sorted(tried)
            return res
        vo = os.path.join(COQ, 'props', prop + '.vo')
        if os.path.exists(vo):
            os.unlink(vo)
        ok_p, out_p, ff, detail = coq_make(['props/%s.vo' % prop])
        res['proof_ok'] = ok_p
    files = list(proof_files) + ['props/%s.v' % prop]
    total = sum(count_qed(f) for f in files)
    chk.cov['obligations'] = total
    if ok_p:
        chk.cov['discharged'] = total
        closed, axioms = assumptions(out_p, prop)
        extra = [a for a in axioms if a not in STD_AXIOMS and a not in allow_axioms]
        chk.cov['print_assumptions'] = {'closed_under_global_context': closed, 'axioms': axioms}
        if extra:
            res['proof_ok'] = False
            res['broken'] = ('props/%s.v' % prop, 'Print Assumptions', 'unexpected axioms: %s' % extra)
        hy = hygiene()
        if hy:
            res['proof_ok'] = False
            res['broken'] = ('hygiene', 'forbidden construct', '; '.join(hy[:5]))
        # a unit the translator could not regenerate: the theorems were re-checked against the committed snapshot of that
        # unit, not against the current source -- the tie is broken even though every proof still goes through
        stale = ['%s (%s)' % (u, str(v.get('error') or v.get('reason') or 'unsupported')[:160]) for u, v in res['tieA'].items() if v and not v.get('ok', True)]
        if stale and res['broken'] is None:
            res['broken'] = ('tools/rs2v', 'regeneration of ' + ', '.join(u.split()[0] for u in stale),
                             'the translator does not support the current source of: ' + '; '.join(stale) +
                             ' -- the theorems were checked against the committed snapshot of the model, not against this source')
    else:
        line = None
        m = re.search(r'line (\d+)', detail or '')
        if m:
            line = int(m.group(1))
        lemma = lemma_at(ff, line) if ff and line else None
        res['broken'] = (ff, lemma, detail)
        done = 0
        for f in files:
            if f == ff:
                done += count_qed(f, line)
            elif os.path.exists(os.path.join(COQ, f[:-2] + '.vo')) and \
                    os.path.getmtime(os.path.join(COQ, f[:-2] + '.vo')) >= os.path.getmtime(os.path.join(COQ, f)):
                done += count_qed(f)
        chk.cov['discharged'] = min(done, total - 1)
    chk.cov['checker_cmd'] = 'make -C coq props/%s.vo (coqc 8.16.1, full .vo build) + Print Assumptions allowlist + forbidden-construct scan' % prop
    unavailable = [u for u in units if not st.get(u, {}).get('ok')]
    chk.cov['tie_A'] = {'units': units, 'unavailable': {u: st.get(u, {}).get('reason') for u in unavailable}}
    return res


def report_broken(chk, res, found_concrete):
    """a proof obligation / model build no longer checks: report per DESIGN 3.3"""
    if res['broken'] is None or found_concrete:
        return
    ff, lemma, detail = res['broken']
    chk.violation({'kind': 'broken-obligation', 'file': ff, 'obligation': lemma, 'detail': detail,
                   'note': 'no concrete failing input was found by the correspondence / counterexample search; '
                           'the property is no longer shown to hold'}, no_input=True)
