#!/usr/bin/env python3
"""Regenerate MANIFEST.json from the table below (keeps it valid and in one place)."""
import json
import os

ROOT = os.path.dirname(os.path.dirname(os.path.abspath(__file__)))
TECH = 'machine-checked proof in Coq over a model regenerated from source + differential correspondence'
TECH_PARTIAL = ('machine-checked proof in Coq of the part of the property that is logic (over code regenerated from source) + differential execution '
                'of the compiled / concurrent part, which is searched, not proved')
TECH_OTHER = 'dual-build differential execution + syntactic check that the regenerated Coq models do not depend on the std feature'
NOTE = ('Trusted: Coq 8.16.1 kernel and vm_compute; translator tools/rs2v and the hand-written glue models (both cross-checked on '
        'every run by the correspondence against the real crate through harness/); usize = 64 bit; no axioms declared. ')

CLAIMS = {
    'C01': ('proof', 'Theorem C01_interp_refines_isa: for every accepted program, user-space environment, initial memory and budget, the '
            'interpreter model regenerated from interpreter.rs (check_mem, register init, all arms, the loop) has the same outcome as the ISA '
            'specification theories/Isa.v; proved arm by arm (~160 arms) plus an invariant over all reachable states. The D7 class '
            '(64-bit unsigned/equality jump with negative immediate) is carved out, with a witness theorem, as a known finding.',
            'Helpers are total functions to u64; regions below 2^63; D7 instruction forms excluded (known finding).'),
    'C02': ('proof', 'Theorems C02_*: the regenerated check_mem passes iff all bytes of the access lie in mbuff/packet/stack/one registered range '
            '(for every address, width, layout); every access arm checks exactly the bytes it touches (arm = ISA arm); a store changes only the '
            'addressed bytes; a refused access leaves memory as before. Correspondence on the address grid with guard pages and canaries.',
            'That the raw pointer access after a passed check touches exactly the checked bytes is validated by guard pages/canaries, not proved.'),
    'C05': ('proof', 'Theorem C05_no_crash: for every byte string accepted by the regenerated verifier, every environment, input, helper set and '
            'budget the regenerated interpreter never panics (no out-of-range fetch, register/frame index, unreachable!, arithmetic overflow); '
            'via an invariant preserved by every step, resting on the C06 theorem.',
            'Debug-profile arithmetic; helpers total; stack base >= 2^20.'),
    'C06': ('proof', 'Theorem C06_verifier_iff: the whole of verifier.rs, regenerated into Coq on every run, accepts a byte string iff it satisfies the '
            'independently written well-formedness specification (theories/WellFormed.v), for every byte string; C06_never_panics: the result '
            'is always Ok or Err. The correspondence run compares the real verifier, the model and the specification on directed and random byte strings.',
            ''),
    'C07': ('proof', 'Theorems C07_call, C07_call_return, C07_depth_limit on the ISA step, which the regenerated interpreter loop equals on every '
            'reachable state (C01_step_refines): a local call saves r6-r9 and the return address and lowers r10 by the recorded frame size; after any '
            'callee execution the matching return resumes after the call with r6-r10 restored and r0-r5 passed through; the 9th nested call is an error. C07_stack_rs_pieces / C07_usage_map_is_stack_rs: the frame-size table of the model is what src/stack.rs computes (regenerated: a calculator\'s result used as it is, default 256, keys 0 and every local-call target). '
            'Theorem C07_jit_local_call (over the sequence emit_local_call emits, regenerated; stack machine X86Stk.v with rsp and byte memory): rbx, r13, r14, r15 = eBPF r6..r9 '
            'are saved and come back whatever the callee does to them, and nothing but rsp changes before the call -- so the callee is entered on the caller\'s frame '
            'pointer, which is known finding D18. Correspondence on call graphs (depth 0..9, forward/backward, recursion, calculators); the JIT is compared with the interpreter.',
            'JIT machine code by differential execution; its frame-pointer defect is known finding D18. stack.rs is hand-modelled (Stack.v).'),
    'C08': ('proof', 'Theorems C08_helper_call / C08_other_registers / C08_unknown_helper on the ISA step (= regenerated interpreter step): exactly the '
            'registered function applied once to (r1..r5), result in r0, other registers, frames and memory unchanged; unknown id = error. '
            'Theorem C08_jit_call_contract (over the instructions jit.rs emits around emit_call, regenerated): eBPF r1..r5 arrive in the System V argument registers, '
            'an even number of words is pushed, the result is taken from rax, r6..r10 and the JIT\'s r10 come back for any helper that honours the ABI; '
            'C08_compiled_call_key: both compilers key the helper by the unsigned immediate, refuse unregistered ids at compile time, Cranelift passes r1..r5 and defines r0; C08_jit_call_step / C08_cranelift_call_step: as one step of the compiled program (JitStep.jit_exec, ClStep.cl_exec) the call applies exactly the registered function to (r1..r5), defines r0, leaves r6-r10 and memory unchanged and continues at the next instruction. '
            'The machine code itself: JIT and Cranelift are compared with the interpreter using instrumented helpers (argument mixer, call counter, caller-saved clobberer, '
            'stack-alignment probe) at call depth 0..3.',
            'Compiled engines: call-site logic proved, machine code by differential execution; System V ABI and Cranelift\'s code generation trusted.'),
    'C09': ('proof', 'Theorems C09_entry_registers / C09_entry_values: the register initialisation regenerated from interpreter.rs equals the specified '
            'entry state (r1 = metadata buffer | packet | 0, r10 = stack top, others 0); ld_abs arms address the packet. C09_cranelift_entry: the registers defined by '
            'build_function_prelude (regenerated): r1 = metadata pointer if that buffer is non-empty else the packet pointer, r10 = end of the 512-byte slot = upper bound of the '
            'bounds-check stack region, nothing else but r2. C09_jit_prologue_*: the prologue emitted for each of the three VM-kind variants (regenerated; stack machine '
            'X86Stk.v): rdi = packet or metadata pointer, r10 = packet pointer, rbp = rsp after the five saves with rsp 520 bytes lower, and for the fixed kind the words at '
            'metadata + offsets hold packet start and end; C09_jit_entry_no_metadata / C09_jit_entry_metadata: the state the prologue leaves is an entry state of the JIT run theorems '
            '(every register a 64-bit value, R10 = packet address, rdi = the interpreter\'s r1, rbp = top of the 512-byte stack). C09_r1_every_kind_every_engine / C09_fixed_metadata_words / C09_fixed_jit_words: the arguments each VM kind\'s '
            'execute_program / _jit / _cranelift hands to its engine and the stores into the fixed metadata buffer, regenerated from lib.rs, give r1 = metadata buffer '
            '(metadata VMs), packet or 0 (raw VM), 0 (no-data VM) under all three engines, and packet start / end at the two offsets on every execution. All 4 VM kinds x 3 engines are '
            'probed against values derived from the buffer layout, incl. the two words of the fixed metadata buffer for 8 offset pairs, 6 packet lengths '
            'and successive executions.',
            'how the engines\' entry code uses those arguments at run time is exercised differentially.'),
    'C10': ('proof', 'Theorem C10_refinement: the implementation state machine of the VM API (theories/VmApi.v, hand-written from lib.rs) answers every finite '
            'history of calls exactly as the abstract VM in which compiled code is a function of the loaded program and the interpreter runs the loaded program with the frame sizes of that '
            'program under the stack-usage calculator most recently installed (the state machine tracks the calculator and the frame-size table; C10_interpreter_uses_the_loaded_programs_frames); '
            'corollaries: a failed set_program/set_verifier is a no-op, the loaded program was accepted by the verifier in force, executions are pure. Theorem C10_model_is_the_code: the effect '
            'lists of set_program, set_verifier, register_helper, set_stack_usage_calculator, jit_compile and cranelift_compile, regenerated from lib.rs on every run '
            '(the other VM kinds must delegate or repeat them), executed in program order with early return at the first failing step, equal that state machine. '
            'It is also compared with the real VMs: every history of length <= 2 (<= 4 in the thorough tier) over a 17-op alphabet from 4 initial programs, every history of length <= 4 (<= 5) over a calculator / reload alphabet with two programs whose result is a frame size, directed recompilation and stack-usage histories, same-address histories (the programs of a history placed at the start of one buffer) and random histories on all 4 VM kinds.',
            'programs / verifiers / compilers abstract in the theorem; stack-usage validation assumed to succeed in the model; execute_* by correspondence.'),
    'C18': ('proof', 'PARTIAL. Theorem C18_atomic_sum: for every number of threads, addends and interleaving, indivisible adds leave init + sum (mod 2^w) -- no '
            'update lost; C18_split_rmw_loses: a load/store pair loses updates (the property discriminates); C18_engines_use_atomic_rmw: regenerated from '
            'the three sources, every engine\'s XADD arm uses fetch_add / lock add / atomic_rmw add; the single-thread effect and the alignment error are the '
            'xadd arms of C01/C02. Concurrent runs (all engine mixes) are supporting evidence and the failing-schedule search.',
            'Indivisibility of the hardware/LLVM/Cranelift primitive is trusted, not proved.'),
    'C19': ('proof', 'Theorems C19_*: gather_bytes, the byte count returned by bpf_trace_printf (= 29 + hex digits, stdout captured in the correspondence) and '
            'the range reduction of rand are regenerated from helpers.rs and proved for all arguments (no panic; min <= r <= max); memfrob involution and '
            'strcmp zero-iff on byte-string models. Theorem C19_sqrti_exact: `(x as f64).sqrt() as u64`, modelled with Flocq\'s IEEE-754 binary64 (conversion, correctly '
            'rounded square root, truncation; the model is compared with the code on a grid), is the exact integer square root Z.sqrt x for every x below 2^52.',
            'C19_sqrti_exact depends on the standard-library axioms sig_forall_dec, sig_not_dec (classical Dedekind reals), functional_extensionality_dep and classic, through Flocq and Reals; '
            'the Flocq model of f64 is hand-written and tied to the code by the correspondence.'),
    'C20': ('proof', 'PARTIAL. Theorems C20_jit_memory_size / C20_no_std_memory_refusal / C20_no_std_accepts_what_std_allocates / C20_jit_flags_agree over both cfg twins of '
            'JitMemory::new and of every jit_compile (regenerated): same buffer size, same passes, the no_std build refuses caller memory exactly when too short or not '
            'page-aligned, every VM kind compiles with the same prologue flags in both builds; C20_api_effects_agree: the state-changing API methods have the same effect lists in both builds, '
            'except that the no_std jit_compile takes the caller\'s executable memory, after the check that a program is loaded; C20_exec_memory_setter_is_neutral: set_jit_exec_memory (no_std only; every VM kind, regenerated) only stores the caller\'s memory and leaves program, verifier, helpers and compiled code as they are. The models of C01/C02/C05/C06/C17 are regenerated from source regions checked on every run to contain no code '
            'selected by the std feature, so their theorems describe both builds; the rest of the cfg-dependent glue is compared by running a default build and a '
            '--no-default-features build of the harness on the corpora of C01/C03/C06/C13-C15 (JIT from caller-supplied executable memory) and requiring '
            'identical transcripts.',
            'Helpers that exist only with std are outside the comparison.'),
    'C03': ('proof', 'PARTIAL. The x86-64 machine code emitted by jit.rs and its execution are not modelled in Coq. Proved: the reference (interpreter) equals the ISA '
            '(theorem C01); the register map is injective and avoids the scratch registers; on every accepted program each recorded jump / call target is an '
            'instruction start inside the table resolve_jumps indexes (regenerated expressions); theorems C03_enc_*: the x86-64 encoders regenerated from jit.rs '
            '(REX / ModRM / displacement selection, ALU register and immediate forms, mov, push / pop, loads and stores of every width, mov imm64) append exactly the '
            'bytes of the encoding specification X86Enc.v for every register, displacement and immediate; theorem C03_alu_arms: for the 38 ALU opcodes emitted directly the '
            'emitted instruction sequence (regenerated) computes the ISA value under the x86 semantics X86Sem.v, clobbering only RCX; theorem C03_jump_conditions: for all 44 '
            'conditional jumps the emitted cmp / test and condition code branch iff the ISA condition holds; theorems C03_memory_accesses_*: the 22 memory opcodes make the ISA '
            'access; theorem C03_muldiv_arms: for the 12 mul / div / mod opcodes the sequence built by emit_muldivmod (regenerated; sequence machine X86Seq.v with stack, '
            'flags, MUL / DIV with #DE, a lone REX.W prefix and the rel32 jump inside the sequence, instruction lengths = the proved encodings, C03_muldiv_bytes) ends with the ISA '
            'value in the destination, rax / rdx / the stack restored, only rcx clobbered, and never faults; theorems C03_byte_swaps / C03_wide_load: le / be at 16, 32, 64 bits (and, mov, '
            'rol16 + and, bswap) and lddw leave the ISA value in the destination and touch nothing else; C03_epilogue: the epilogue returns eBPF r0 in rax with the caller\'s rsp, rbp, '
            'rbx, r13-r15 (prologue: C09; helper calls: C08; local calls: C07). Composition (JitStep.v, JitRun.v): C03_step_simulates -- with eBPF register k in x86 register '
            'REGISTER_MAP[k] and R10 = packet address, the sequence emitted for any accepted instruction other than a call (jit_exec: the regenerated arms run on X86Sem / X86Seq, '
            'registers taken modulo 2^64 between sequences) ends, whenever the ISA step succeeds, at the ISA next pc with the ISA memory in a related register file; '
            'C03_helper_call_simulates -- the call site around any helper honouring the System V ABI gives the registered function r1..r5, defines r0, brings r6..r10 back and leaves '
            'the helper\'s garbage in r1..r5; C03_run_refines -- the code of every accepted program whose calls are helper calls returns the value and leaves the memory of the ISA run '
            '(in which r1-r5 hold that garbage after a call: the plain ISA run when there is no call, C03_reference_without_calls) for every input, budget, content of the '
            'unmapped / unwritten registers and garbage; jit_steps is evaluated inside Coq against the real JIT on the raw VM on every run (helper-call programs included). C03_jit_agrees_with_interpreter (IsaDef.v, DefRun.v): the '
            'property in its own terms -- whenever the ISA run that tracks defined registers (r1, r10 at entry; a helper call defines r0 and un-defines r1-r5) returns, i.e. the program terminates, '
            'accesses are in bounds and no undefined register is read, the regenerated interpreter and the modelled x86-64 code both return that value and leave that memory '
            '(C03_undefined_registers_do_not_matter is the non-interference step behind it). Searched, not proved: the CPU executing the bytes '
            'and the CPU itself, by executing compiled '
            'code in a child process against the interpreter on a corpus of ~8000 programs built to cover every opcode x every destination/source register pair x '
            'boundary immediates and displacements x control-flow shapes x program lengths above 65535 x 4 VM kinds (about 14000 runs), plus the C07 call graphs. '
            'Known finding D18 (callee frame pointer) is listed for this property too.',
            'Machine-code semantics outside the model: the deciding evidence for emission is differential execution, i.e. exploration.'),
    'C04': ('proof', 'PARTIAL. Theorem C04_alu_arms: for each of the 50 ALU opcodes and all operand values the Cranelift IR built by translate_program (regenerated into Coq '
            'on every run; value semantics of the IR in ClirSem.v, traps on zero divisors modelled) defines the destination register to exactly the ISA value, and never '
            'traps; theorem C04_jump_conditions: for each of the 44 conditional jumps (the shared arm partially evaluated per opcode) the value handed to brif is '
            'non-zero iff the ISA condition holds; theorem C04_memory_accesses: each of the 22 load / store / atomic-add arms performs the ISA access (kind, width, '
            'effective address, value modulo width, zero-extended result, destination); C04_byte_swaps / C04_wide_load / C04_helper_call_shape: le/be at 16, 32, 64 bits and lddw '
            'define the ISA value (lddw without intermediate overflow), helper calls are keyed by the unsigned immediate, take r1..r5 and define r0, local calls are refused; '
            'C04_jump_blocks / C04_brif_successors: on an accepted program each jump\'s taken successor is the block of the ISA target pc (an instruction start), the other the block of the next pc. '
            'Composition (ClStep.v, ClRun.v): C04_step_refines -- the effect of the IR built for one instruction (cl_exec: arm value -> set_dst, bounds check -> access, '
            'condition -> successor; hand-written over the regenerated arms) is the ISA step whenever the ISA step succeeds, for every opcode the verifier accepts '
            '(C04_accepted_opcodes_translated); C04_run_refines -- for every accepted program with helper calls only, every input and budget, the run of cl_exec from the '
            'registers of the regenerated prelude (C04_entry_registers: the interpreter\'s but for r2) returns the ISA value and leaves the ISA memory; cl_run is evaluated '
            'inside Coq against the real compiled code on every run (value, packet and metadata bytes, traps). C04_cranelift_agrees_with_interpreter: whenever the ISA run that tracks '
            'defined registers returns (termination, accesses in bounds, no undefined register read -- r2, which Cranelift sets at entry, included), the regenerated interpreter and '
            'the modelled Cranelift code return that value and leave that memory. '
            'How blocks are laid out and sealed, what a called helper does and Cranelift code generation are not modelled: compiled code is executed '
            'against the interpreter (= ISA by C01) on the same corpus as C03; programs with local calls must be refused (ERR) by compilation. This search found that '
            'every 64-bit conditional jump was compiled as its 32-bit variant (fixed: 742bb11).',
            'IR semantics hand-modelled; IR -> machine code trusted; block structure by differential execution.'),
    'C11': ('proof', 'Theorem C11_bounds_check: the IR that cranelift.rs builds in insert_bounds_check (regenerated into Coq on every run, over a value semantics of '
            'iconst/iadd/icmp/band/bor/trapz) lets execution continue iff the access [a, a+size), a = (base+offset) mod 2^64, does not wrap and lies entirely in the '
            'stack, the packet (when present) or the metadata buffer (when present) -- for every base, offset, width and region layout; C11_regions: the region '
            'variables are the slices passed and the 512-byte slot; C11_check_precedes_access: reg_load/reg_store/reg_atomic_add check first, with the type, base '
            'and offset of the access they perform; C11_checked_access_is_the_isa_access: width and effective address of all 22 memory opcodes (incl. '
            'absolute / indirect loads) are the ISA\'s; C11_compiled_step_safe: as a property of the compiled step (ClStep.cl_exec) a load / store / atomic add either completes having made '
            'its access entirely inside the stack, the packet or the metadata buffer, or traps before touching memory, exactly when the access is not of that kind. Compiled code is run in a child against guard pages on the address grid and compared with the interpreter\'s '
            'decision (C02 theorem) and with the IR model. PARTIAL in that Cranelift\'s code generation is trusted (exercised, not verified).',
            'Cranelift IR semantics modelled by hand (ClirSem.v); IR -> machine code trusted.'),
    'C12': ('proof', 'PARTIAL. Theorems C12_jit_jump_targets / C12_jit_call_targets: for every program accepted by the (regenerated) verifier, the target that the x86-64 JIT '
            'records for each jump and local call (expression regenerated from jit.rs) is an instruction start of the program, so resolve_jumps\' indexing '
            'pc_locs[target as usize] is inside the nslots+1 entries allocated and hits a filled entry; C12_register_map: the register map is injective and avoids '
            'RCX/R10/R11/RSP; C12_cranelift_blocks_registered / C12_cranelift_targets_total: Cranelift registers blocks for exactly the instructions whose arm looks one up (every jump, '
            'exit, tail call) and on an accepted program the target pc conversion never panics; C12_jit_emit_fits: the assertion emit_bytes! makes in the writing pass (regenerated) holds for every write inside the length '
            'the sizing pass reached, with the buffer size JitMemory::new computes -- an image filling its pages exactly included. That both passes emit the same bytes, and Cranelift\'s builder, are not modelled: verifier-accepted corpora (random well-formed streams, every '
            'opcode with extreme operands, up to 70000 instructions quick / 999999 thorough, far jumps, images of every length around the page boundaries, 3 helper sets) are compiled twice by both compilers in a child '
            'process and must give OK or ERR both times. This search found the Cranelift jump-to-first-instruction panic (fixed: a516a8e).',
            'Only the bookkeeping logic is proved; panics / overruns elsewhere are searched for, not excluded.'),
    'C13': ('proof', 'Theorem C13_text: every text in the documented syntax -- mnemonic, white space, operands separated by `,` + any white space, numbers with optional '
            'sign in decimal or 0x-hexadecimal (either case, any leading zeros), registers r+digits, memory operands [rN] / [rN+lit] / [rN-lit], lines separated by '
            'white space -- assembles to the specified encoding (AsmSpec.denote: table by ISA numbering, shapes, range limits, lddw split, unused fields zero) of '
            'what it spells, in source order, or to an error and no bytes when some instruction denotes nothing. Built from C13_instruction (regenerated instruction '
            'map by partial evaluation + encode + insn + lddw second slot = denote, for every mnemonic string and operand list), C13_program, C13_tables_agree and '
            'the grammar lemmas of GenText.v over the parser model. Correspondence: model = implementation = specification = bytes computed independently by the '
            'generator, on spelled text incl. range limits and malformed input.',
            'asm_parser.rs hand-modelled (tie B); theorem covers ASCII white space; `ja+5`-style gluing and non-ASCII blanks are evaluated only.'),
    'C16': ('proof', 'Theorem C16_roundtrip: for every program in the disassembler\'s domain, of any length and all field values, disassembling (regenerated disassembler), '
            'joining the lines and assembling (parser model + regenerated assembler.rs / ebpf.rs) returns the canonical form of the program when every instruction is '
            'expressible (mnemonic known to the assembler, 32-bit immediates non-negative, any 64-bit lddw value) and an error otherwise; corollaries '
            'C16_reproduces_program (canonical expressible programs give the original bytes) and C16_accepts_only_canonical (accepted => canonical form, never another '
            'instruction). Rests on C15, C13 and the closing lemma C16_parser_reads_printed_text (digits printed by the formatter model are read back to the same '
            'value; registers, 0x.. numbers, signed offsets, memory operands, operand lists, lines). Scope: all opcodes except tail_call and byte swaps of width other '
            'than 16/32/64 (rejection evaluated, not proved). Correspondence: real disassemble+assemble = composed model = canonical-form specification.',
            'asm_parser.rs hand-modelled (tie B); Rust formatting modelled by Fmt.v.'),
    'C14': ('proof', 'Theorem C14_assemble_total: for every input string (any Unicode scalar values, any classification of the non-ASCII ones) the assembler '
            'model returns Ok or Err -- never a panic (integer parsing, sign multiplication, operands[1], insn().unwrap()) and never fuel exhaustion (bounded time). '
            'Model: asm_parser.rs hand-modelled with the combine 4.6 semantics (committed / uncommitted failure, attempt, optional, or, many, sep_by, not_followed_by); '
            'assembler.rs regenerated on every run (instruction map by partial evaluation, insn, operands_tuple, encode, lddw second slot). '
            'Correspondence on well-formed and malformed text (oversized literals in every operand position, huge registers, truncations, Unicode, mutations).',
            'The parser model and the assemble_internal loop are hand-written: their tie is the correspondence (tie B).'),
    'C15': ('proof', 'Theorem C15_disassembly_is_specified: on every byte string in the property\'s domain the disassembler regenerated from '
            'disassembler.rs (operand renderers, the opcode table, the loop merging wide loads; format! translated through a model of Rust\'s {} and {:#x}) '
            'returns exactly the entries of an independently written specification (mnemonic table by ISA numbering, assembler syntax, merged 64-bit '
            'immediate), for programs of any length and all field values; hence it never panics there. Correspondence compares the real to_insn_vec.',
            'Rust\'s integer formatting is modelled by theories/Fmt.v (validated by the correspondence); warn! log output ignored.'),
    'C17': ('proof', 'Theorems C17_* (props/C17.v) prove, for all field values and all program positions, that the encoders/decoder/builder serializer '
            'regenerated from src/ebpf.rs and src/insn_builder.rs equal the specified slot layout and that the layout is a bijection; the '
            'correspondence run ties model and spec to the real crate.', 'Builder constructors -> opcode byte is tied by exhaustive enumeration of constructors.'),
}
PENDING = 'check not yet built in this session (planned: see DESIGN.md section 4); not a claim that the technique cannot apply'


def main():
    props = [json.loads(l) for l in open(os.path.join(ROOT, 'properties.jsonl'))]
    m = {"version": 1, "setup_cmd": "bin/setup",
         "hooks": {"guard": "--cfg rbpf_verif",
                   "enable": "RUSTFLAGS=\"--cfg rbpf_verif\" cargo build --offline (harness/ depends on /repo by path)",
                   "baseline_off_cmd": "cd /repo && cargo test --workspace --no-fail-fast --offline",
                   "source_commits": ["52c4dac"], "add_only": True},
         "engines": [{"name": "coq-proof+correspondence", "path": "bin/check", "serves_properties": sorted(CLAIMS),
                      "kind_free_text": "Coq 8.16 theorems over a model regenerated from /repo/src by tools/rs2v, plus differential "
                                        "correspondence (model evaluated by vm_compute inside coqc against the real crate through harness/)"}],
         "checks": [], "not_applicable": [],
         "notes": "See DESIGN.md. Properties move from not_applicable to checks as their checks are built; KNOWN_FINDINGS.txt lists known and fixed defects."}
    for p in props:
        pid = p['id']
        if pid in CLAIMS:
            lvl, text, extra = CLAIMS[pid]
            m['checks'].append({"property_id": pid, "quick_cmd": "bin/check %s quick" % pid, "thorough_cmd": "bin/check %s thorough" % pid,
                                "evidence_file": "/verif/evidence/%s.json" % pid, "replay_cmd_template": "bin/check %s --replay {path}" % pid,
                                "engine": "coq-proof+correspondence",
                                "level_claimed": {"category": lvl, "text": text, "design_ref": "4 (%s)" % pid},
                                "level_note": NOTE + extra,
                                "technique": TECH_OTHER if lvl == 'other' else (TECH_PARTIAL if 'PARTIAL' in text[:12] else TECH)})
        else:
            m['not_applicable'].append({"property_id": pid, "reason": PENDING})
    json.dump(m, open(os.path.join(ROOT, 'MANIFEST.json'), 'w'), indent=1)


if __name__ == '__main__':
    main()
