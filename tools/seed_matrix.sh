#!/bin/sh
# run every seeded change against the check of its property; prints one line per seed
cd /verif
for d in ${SEEDS:-seeded/C*}; do
  id=$(basename $d)
  p=$(echo $id | cut -c1-3)
  n=$(tools/try_seed.sh /verif/$d/patch.diff $p 2>/dev/null | grep "VIOLATION property=$p" | sort -u)
  c=$(echo "$n" | grep -c "replay=\S*$")
  b=$(echo "$n" | grep -c "no-failing-input-found")
  echo "$id concrete=$c broken-only=$b"
done
