#!/bin/sh
# usage: tools/check_snapshots.sh [--refresh]  -- on a clean /repo tree the committed fallback models (coq/gen-snapshot) must be exactly what
# the translator generates; prints the units that differ (and copies the fresh ones over them with --refresh)
cd /verif
st=$(git -C /repo status --short)
if [ -n "$st" ]; then echo "/repo is not clean: $st"; exit 2; fi
tmp=$(mktemp -d /root/snapcheck.XXXXXX)
python3 tools/rs2v/main.py /repo/src "$tmp" >/dev/null 2>&1
rc=0
for f in "$tmp"/*.v; do
  b=$(basename "$f")
  if ! cmp -s "$f" coq/gen-snapshot/"$b"; then
    echo "snapshot differs: $b"; rc=1
    [ "$1" = "--refresh" ] && cp "$f" coq/gen-snapshot/"$b"
  fi
done
rm -rf "$tmp"
[ $rc -eq 0 ] && echo "snapshots = fresh generation"
exit $rc
