#!/bin/bash
# confirm_seed.sh <worktree> <id> [cargo feature flags]  -- confirm a seeded change in its scratch worktree:
# suite passes with the change, the demonstration fails with it and passes without it.
wt=$1; id=$2; shift 2; feat="$@"
cd $wt || exit 2
export CARGO_NET_OFFLINE=true
git checkout -q -- src; git apply seeded/patch.diff || exit 2
suite=$(cargo test --offline $feat 2>&1 | grep -E "^test result" | awk '{p+=$4; f+=$6} END {print p" passed "f" failed"}')
cp seeded/demo.rs tests/zz_seed_demo.rs
with=$(cargo test --offline $feat --test zz_seed_demo -- --test-threads=1 2>&1 | grep -E "^test result" | head -1)
git diff -- src > /root/scratch/$id.applied.diff
git checkout -q -- src
without=$(cargo test --offline $feat --test zz_seed_demo -- --test-threads=1 2>&1 | grep -E "^test result" | head -1)
rm -f tests/zz_seed_demo.rs
git apply /root/scratch/$id.applied.diff
echo "$id: suite[$feat]: $suite | demo with change: $with | demo without: $without"
