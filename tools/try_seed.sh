#!/bin/sh
# usage: tools/try_seed.sh <patch.diff> <Cxx> [Cyy ...]   -- apply a seeded change to /repo, run the checks, undo it
patch=$1; shift
cd /verif
case "$patch" in /*) ;; *) patch="/verif/$patch";; esac
git -C /repo apply "$patch" || { echo "patch does not apply"; exit 2; }
# whatever happens (a closed pipe included), the tree is restored and the generated models brought back to it
trap 'git -C /repo checkout -- . ; python3 /verif/tools/rs2v/main.py /repo/src /verif/coq/gen >/dev/null 2>&1' EXIT
trap 'exit 1' PIPE INT TERM
for c in "$@"; do
  echo "== $c"
  bin/check $c quick 2>/dev/null | grep -E "^(VIOLATION|KNOWN-FINDING)" | cut -c1-160 | head -5
  echo "rc=$?"
done
git -C /repo checkout -- .
git -C /repo status --short | head -3
# the generated models were regenerated from the changed tree: bring them back to the restored tree
python3 tools/rs2v/main.py /repo/src coq/gen >/dev/null 2>&1
