// Verification harness: runs the real rbpf crate (built from /repo's working tree with
// `--cfg rbpf_verif`) on cases given one per line and prints one canonical answer per line.
// See /verif/DESIGN.md (1.3, A.2). Single-threaded except for the `xadd` command.
#![allow(clippy::all)]
#![allow(static_mut_refs)]

use std::collections::HashMap;
use std::io::{BufRead, Write};
use std::panic;

mod arena;
mod hl;
use hl::*;

fn hex(b: &[u8]) -> String {
    if b.is_empty() {
        return "-".to_string();
    }
    let mut s = String::with_capacity(b.len() * 2);
    for x in b {
        s.push_str(&format!("{:02x}", x));
    }
    s
}

pub fn unhex_pub(s: &str) -> Vec<u8> {
    unhex(s)
}

fn unhex(s: &str) -> Vec<u8> {
    if s == "-" || s.is_empty() {
        return vec![];
    }
    let b = s.as_bytes();
    let mut out = Vec::with_capacity(b.len() / 2);
    let v = |c: u8| -> u8 {
        match c {
            b'0'..=b'9' => c - b'0',
            b'a'..=b'f' => c - b'a' + 10,
            b'A'..=b'F' => c - b'A' + 10,
            _ => panic!("bad hex"),
        }
    };
    let mut i = 0;
    while i + 1 < b.len() {
        out.push(v(b[i]) * 16 + v(b[i + 1]));
        i += 2;
    }
    out
}

fn parse_i(s: &str) -> i128 {
    if let Some(h) = s.strip_prefix("0x") {
        i128::from_str_radix(h, 16).unwrap()
    } else if let Some(h) = s.strip_prefix("-0x") {
        -i128::from_str_radix(h, 16).unwrap()
    } else {
        s.parse::<i128>().unwrap()
    }
}

thread_local! {
    static PANIC_LOC: std::cell::RefCell<String> = std::cell::RefCell::new(String::new());
}

fn install_panic_hook() {
    panic::set_hook(Box::new(|info| {
        let loc = match info.location() {
            Some(l) => {
                let f = l.file();
                let f = f.rsplit('/').next().unwrap_or(f);
                format!("{}:{}", f, l.line())
            }
            None => "?".to_string(),
        };
        if std::env::var("HARNESS_PANIC_MSG").is_ok() {
            let msg = if let Some(s) = info.payload().downcast_ref::<&str>() {
                s.to_string()
            } else if let Some(s) = info.payload().downcast_ref::<String>() {
                s.clone()
            } else {
                String::new()
            };
            eprintln!("panic at {}: {}", loc, &msg[..msg.len().min(1500)]);
        }
        PANIC_LOC.with(|p| *p.borrow_mut() = loc);
    }));
}

pub fn catch<F: FnOnce() -> String + panic::UnwindSafe>(f: F) -> String {
    match panic::catch_unwind(f) {
        Ok(s) => s,
        Err(_) => format!("PANIC {}", PANIC_LOC.with(|p| p.borrow().clone())),
    }
}

fn kv(args: &[&str]) -> HashMap<String, String> {
    let mut m = HashMap::new();
    for a in args {
        if let Some((k, v)) = a.split_once('=') {
            m.insert(k.to_string(), v.to_string());
        }
    }
    m
}

fn handle(line: &str) -> String {
    let parts: Vec<&str> = line.split_whitespace().collect();
    if parts.is_empty() {
        return "EMPTY".to_string();
    }
    match parts[0] {
        "dec" => {
            let idx = parse_i(parts[1]) as usize;
            let prog = unhex(parts[2]);
            catch(move || {
                let i = rbpf::ebpf::get_insn(&prog, idx);
                format!("INSN {} {} {} {} {}", i.opc, i.dst, i.src, i.off, i.imm)
            })
        }
        "enc" => {
            let i = rbpf::ebpf::Insn {
                opc: parse_i(parts[1]) as u8,
                dst: parse_i(parts[2]) as u8,
                src: parse_i(parts[3]) as u8,
                off: parse_i(parts[4]) as i16,
                imm: parse_i(parts[5]) as i32,
            };
            catch(move || format!("BYTES {} {}", hex(&i.to_array()), hex(&i.to_vec())))
        }
        "bld" => cmd_bld(&parts[1..]),
        "verify" => {
            let prog = unhex(parts[1]);
            catch(move || match rbpf::EbpfVmMbuff::new(Some(&prog)) {
                Ok(_) => "OK".to_string(),
                Err(_) => "ERR".to_string(),
            })
        }
        "verifyrep" => {
            // verifyrep <prefix> <unit> <count> <suffix>: the program prefix ++ unit * count ++ suffix (for programs too long to spell out)
            let mut prog = unhex(parts[1]);
            let unit = unhex(parts[2]);
            let count: usize = parts[3].parse().unwrap();
            for _ in 0..count {
                prog.extend_from_slice(&unit);
            }
            prog.extend_from_slice(&unhex(parts[4]));
            catch(move || match rbpf::EbpfVmMbuff::new(Some(&prog)) {
                Ok(_) => "OK".to_string(),
                Err(_) => "ERR".to_string(),
            })
        }
        "run" => cmd_run(&kv(&parts[1..])),
        "asm" => {
            let src = String::from_utf8_lossy(&unhex(parts[1])).into_owned();
            catch(move || match rbpf::assembler::assemble(&src) {
                Ok(b) => format!("OK {}", hex(&b)),
                Err(_) => "ERR".to_string(),
            })
        }
        "cls" => {
            // Unicode classification (as std sees it) of every char of the string: cp:alnum,alpha,space
            let src = String::from_utf8_lossy(&unhex(parts[1])).into_owned();
            let mut s = String::from("OK");
            for c in src.chars() {
                s.push_str(&format!(" {}:{}{}{}", c as u32, c.is_alphanumeric() as u8, c.is_alphabetic() as u8, c.is_whitespace() as u8));
            }
            s
        }
        "disasm" => {
            let prog = unhex(parts[1]);
            catch(move || {
                let v = rbpf::disassembler::to_insn_vec(&prog);
                let mut s = format!("OK {}", v.len());
                for i in v {
                    s.push_str(&format!(
                        " | {} {} {} {} {} {} {}",
                        i.opc,
                        i.dst,
                        i.src,
                        i.off,
                        i.imm,
                        hex(i.name.as_bytes()),
                        hex(i.desc.as_bytes())
                    ));
                }
                s
            })
        }
        "helper" => cmd_helper(&parts[1..]),
        "api" => cmd_api(&parts[1..]),
        "xadd" => cmd_xadd(&kv(&parts[1..])),
        "compile" => cmd_compile(&kv(&parts[1..])),
        "jitbytes" => cmd_jitbytes(&kv(&parts[1..])),
        _ => "UNKNOWN".to_string(),
    }
}

fn main() {
    install_panic_hook();
    arena::init();
    hl::calibrate();
    let stdin = std::io::stdin();
    let stdout = std::io::stdout();
    let mut out = std::io::BufWriter::new(stdout.lock());
    for line in stdin.lock().lines() {
        let line = line.unwrap();
        if line.is_empty() || line.starts_with('#') {
            writeln!(out, "{}", line).unwrap();
            continue;
        }
        let r = handle(&line);
        writeln!(out, "{}", r).unwrap();
        out.flush().unwrap();
    }
}
