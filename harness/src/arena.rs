// Fixed-address buffers flush against PROT_NONE guard pages, so that layouts are identical
// across runs and engines and any stray access faults instead of silently succeeding.
use libc::*;

pub const ARENA_BASE: usize = 0x6000_0000_0000;
pub const SLOT_SIZE: usize = 0x40_0000; // 4 MiB per slot
pub const NSLOTS: usize = 8;
const PAGE: usize = 4096;

pub fn init() {
    unsafe {
        let p = mmap(
            ARENA_BASE as *mut c_void,
            SLOT_SIZE * NSLOTS,
            PROT_NONE,
            MAP_PRIVATE | MAP_ANONYMOUS | MAP_FIXED_NOREPLACE | MAP_NORESERVE,
            -1,
            0,
        );
        if p as usize != ARENA_BASE {
            eprintln!("arena: cannot map fixed region");
            std::process::exit(3);
        }
    }
}

/// Place `data` in slot `slot`; `at_end` = buffer ends exactly at a guard page, otherwise it
/// starts exactly after one. Returns the address. Previous content of the slot is discarded.
pub fn place(slot: usize, data: &[u8], at_end: bool) -> *mut u8 {
    assert!(slot < NSLOTS && data.len() + 2 * PAGE <= SLOT_SIZE);
    unsafe {
        let base = ARENA_BASE + slot * SLOT_SIZE;
        // reset the slot
        mprotect(base as *mut c_void, SLOT_SIZE, PROT_NONE);
        if data.is_empty() {
            // an empty buffer: point at the middle of inaccessible memory
            return (base + SLOT_SIZE / 2) as *mut u8;
        }
        let npages = (data.len() + PAGE - 1) / PAGE;
        let first = base + SLOT_SIZE / 2; // page aligned
        mprotect(first as *mut c_void, npages * PAGE, PROT_READ | PROT_WRITE);
        // fill the writable pages with a canary pattern
        std::ptr::write_bytes(first as *mut u8, 0xa5, npages * PAGE);
        let addr = if at_end { first + npages * PAGE - data.len() } else { first };
        std::ptr::copy_nonoverlapping(data.as_ptr(), addr as *mut u8, data.len());
        addr as *mut u8
    }
}

/// bytes of the writable pages around a placed buffer that are *outside* the buffer and no
/// longer hold the canary (evidence of an out-of-region write)
pub fn canary_damage(slot: usize, addr: *mut u8, len: usize) -> usize {
    if len == 0 {
        return 0;
    }
    unsafe {
        let base = ARENA_BASE + slot * SLOT_SIZE;
        let first = base + SLOT_SIZE / 2;
        let npages = (len + PAGE - 1) / PAGE;
        let mut bad = 0;
        for a in first..first + npages * PAGE {
            if a >= addr as usize && a < addr as usize + len {
                continue;
            }
            if *(a as *const u8) != 0xa5 {
                bad += 1;
            }
        }
        bad
    }
}
