// High-level commands of the harness: builder, run (all engines / VM kinds), helpers, API
// histories, concurrent xadd, JIT byte dumps.
use crate::arena;
use crate::{catch, hex, parse_i, unhex};
use std::any::Any;
use std::collections::HashMap;

// ------------------------------------------------------------------ instrumented helpers

pub static mut HLOG: Vec<u64> = Vec::new();
pub static mut HCOUNT: u64 = 0;
static mut RSP_REF: u64 = 0;

/// pure mixing function of all five arguments (also defined in Coq: Helpers.h_mix)
pub fn h_mix(a: u64, b: u64, c: u64, d: u64, e: u64) -> u64 {
    a.wrapping_mul(3)
        .wrapping_add(b.wrapping_mul(5))
        .wrapping_add(c.wrapping_mul(7))
        .wrapping_add(d.wrapping_mul(11))
        .wrapping_add(e.wrapping_mul(13))
        .wrapping_add(1)
}

/// records its arguments, returns the number of calls so far
pub fn h_rec(a: u64, b: u64, c: u64, d: u64, e: u64) -> u64 {
    unsafe {
        HLOG.extend_from_slice(&[a, b, c, d, e]);
        HCOUNT += 1;
        HCOUNT
    }
}

/// clobbers every caller-saved register (legal under the SysV ABI), returns a + 1
pub fn h_clobber(a: u64, _b: u64, _c: u64, _d: u64, _e: u64) -> u64 {
    unsafe {
        HCOUNT += 1;
    }
    let r = a.wrapping_add(1);
    #[cfg(target_arch = "x86_64")]
    unsafe {
        core::arch::asm!(
            "mov rcx, 0x1111111111111111",
            "mov rdx, 0x2222222222222222",
            "mov rsi, 0x3333333333333333",
            "mov rdi, 0x4444444444444444",
            "mov r8,  0x5555555555555555",
            "mov r9,  0x6666666666666666",
            "mov r10, 0x7777777777777777",
            "mov r11, 0x8888888888888888",
            out("rcx") _, out("rdx") _, out("rsi") _, out("rdi") _,
            out("r8") _, out("r9") _, out("r10") _, out("r11") _,
        );
    }
    r
}

#[inline(never)]
pub fn h_rsp_raw(_a: u64, _b: u64, _c: u64, _d: u64, _e: u64) -> u64 {
    let rsp: u64;
    #[cfg(target_arch = "x86_64")]
    unsafe {
        core::arch::asm!("mov {}, rsp", out(reg) rsp);
    }
    #[cfg(not(target_arch = "x86_64"))]
    {
        rsp = 0;
    }
    rsp
}

/// stack misalignment (mod 16) at entry, relative to a call made by the Rust compiler
pub fn h_rsp(a: u64, b: u64, c: u64, d: u64, e: u64) -> u64 {
    let r = h_rsp_raw(a, b, c, d, e);
    unsafe { r.wrapping_sub(RSP_REF) & 15 }
}

pub fn calibrate() {
    // h_rsp -> h_rsp_raw adds a fixed number of frames; measure through the same path
    let f: fn(u64, u64, u64, u64, u64) -> u64 = h_rsp;
    let f = std::hint::black_box(f);
    unsafe {
        RSP_REF = 0;
        let r = f(0, 0, 0, 0, 0);
        RSP_REF = r; // r = raw & 15 when RSP_REF = 0
    }
}

pub fn h_inc(a: u64, _b: u64, _c: u64, _d: u64, _e: u64) -> u64 {
    a.wrapping_add(1)
}

/// a helper whose machine code lives below 2 GiB, as the functions of a non-PIE executable do (`lea rax, [rdi + 1]; ret`: the value
/// of h_clobber, without the clobbering): a compiler that chooses an encoding by the distance to the target sees a near target
/// from some buffers and a far one from others
#[cfg(target_arch = "x86_64")]
pub fn low_helper() -> rbpf::ebpf::Helper {
    static mut LOW: usize = 0;
    unsafe {
        if LOW == 0 {
            for base in [0x1000_0000usize, 0x2000_0000, 0x3000_0000, 0x0800_0000] {
                let p = libc::mmap(base as *mut libc::c_void, 4096, libc::PROT_READ | libc::PROT_WRITE | libc::PROT_EXEC,
                                   libc::MAP_PRIVATE | libc::MAP_ANONYMOUS | libc::MAP_FIXED_NOREPLACE, -1, 0);
                if p as usize == base {
                    let code: [u8; 5] = [0x48, 0x8d, 0x47, 0x01, 0xc3];
                    std::ptr::copy_nonoverlapping(code.as_ptr(), p as *mut u8, code.len());
                    LOW = base;
                    break;
                }
            }
            if LOW == 0 {
                // no low page to be had on this system: an ordinary function with the same value (the family loses its point,
                // the answers stay right)
                LOW = 1;
            }
        }
        if LOW == 1 {
            return h_inc;
        }
        std::mem::transmute::<usize, rbpf::ebpf::Helper>(LOW)
    }
}

pub fn helper_by_name(n: &str) -> Option<rbpf::ebpf::Helper> {
    Some(match n {
        #[cfg(target_arch = "x86_64")]
        "low" => low_helper(),
        "mix" => h_mix,
        "rec" => h_rec,
        "clobber" => h_clobber,
        "rsp" => h_rsp,
        "gather_bytes" => rbpf::helpers::gather_bytes,
        "memfrob" => rbpf::helpers::memfrob,
        "strcmp" => rbpf::helpers::strcmp,
        #[cfg(feature = "std")]
        "sqrti" => rbpf::helpers::sqrti,
        #[cfg(feature = "std")]
        "rand" => rbpf::helpers::rand,
        _ => return None,
    })
}

// ------------------------------------------------------------------ builder

pub fn cmd_bld(p: &[&str]) -> String {
    use rbpf::insn_builder::*;
    let kind = p[0].to_string();
    let a: Vec<String> = p[1..].iter().map(|s| s.to_string()).collect();
    catch(move || {
        let n = a.len();
        let dst = parse_i(&a[n - 4]) as u8;
        let src = parse_i(&a[n - 3]) as u8;
        let off = parse_i(&a[n - 2]) as i16;
        let imm = parse_i(&a[n - 1]) as i32;
        let source = |s: &str| if s == "reg" { Source::Reg } else { Source::Imm };
        let arch = |s: &str| if s == "x32" { Arch::X32 } else { Arch::X64 };
        let size = |s: &str| match s {
            "b" => MemSize::Byte,
            "h" => MemSize::HalfWord,
            "w" => MemSize::Word,
            _ => MemSize::DoubleWord,
        };
        let mut code = BpfCode::new();
        macro_rules! fin {
            ($i:expr) => {{
                $i.set_dst(dst).set_src(src).set_off(off).set_imm(imm).push();
            }};
        }
        match kind.as_str() {
            "mov" => {
                let s = source(&a[1]);
                let ar = arch(&a[2]);
                match a[0].as_str() {
                    "add" => fin!(code.add(s, ar)),
                    "sub" => fin!(code.sub(s, ar)),
                    "mul" => fin!(code.mul(s, ar)),
                    "div" => fin!(code.div(s, ar)),
                    "or" => fin!(code.bit_or(s, ar)),
                    "and" => fin!(code.bit_and(s, ar)),
                    "lsh" => fin!(code.left_shift(s, ar)),
                    "rsh" => fin!(code.right_shift(s, ar)),
                    "neg" => fin!(code.negate(ar)),
                    "mod" => fin!(code.modulo(s, ar)),
                    "xor" => fin!(code.bit_xor(s, ar)),
                    "mov" => fin!(code.mov(s, ar)),
                    "arsh" => fin!(code.signed_right_shift(s, ar)),
                    _ => return "BADCTOR".to_string(),
                }
            }
            "swap" => fin!(code.swap_bytes(if a[0] == "be" { Endian::Big } else { Endian::Little })),
            "load" => match a[0].as_str() {
                "imm" => fin!(code.load(size(&a[1]))),
                "abs" => fin!(code.load_abs(size(&a[1]))),
                "ind" => fin!(code.load_ind(size(&a[1]))),
                _ => fin!(code.load_x(size(&a[1]))),
            },
            "store" => match a[0].as_str() {
                "imm" => fin!(code.store(size(&a[1]))),
                _ => fin!(code.store_x(size(&a[1]))),
            },
            "jump" => {
                let c = match a[0].as_str() {
                    "ja" => Cond::Abs,
                    "jeq" => Cond::Equals,
                    "jgt" => Cond::Greater,
                    "jge" => Cond::GreaterEquals,
                    "jlt" => Cond::Lower,
                    "jle" => Cond::LowerEquals,
                    "jset" => Cond::BitAnd,
                    "jne" => Cond::NotEquals,
                    "jsgt" => Cond::GreaterSigned,
                    "jsge" => Cond::GreaterEqualsSigned,
                    "jslt" => Cond::LowerSigned,
                    _ => Cond::LowerEqualsSigned,
                };
                if a[0] == "ja" && a[1] == "uncond" {
                    fin!(code.jump_unconditional())
                } else {
                    fin!(code.jump_conditional(c, source(&a[1])))
                }
            }
            "call" => fin!(code.call()),
            "exit" => fin!(code.exit()),
            _ => return "BADCTOR".to_string(),
        }
        format!("BYTES {}", hex(code.into_bytes()))
    })
}

// ------------------------------------------------------------------ run

struct CalcSpec {
    default: u16,
    table: HashMap<usize, u16>,
}

fn calc_fn(_prog: &[u8], pc: usize, data: &mut dyn Any) -> u16 {
    // stack.rs passes `&mut Box<dyn Any>` coerced to `&mut dyn Any`: look through the box
    let s = match data.downcast_ref::<CalcSpec>() {
        Some(s) => s,
        None => data.downcast_ref::<Box<dyn Any>>().and_then(|b| b.downcast_ref::<CalcSpec>()).unwrap(),
    };
    *s.table.get(&pc).unwrap_or(&s.default)
}

fn classify(msg: &str) -> &'static str {
    if msg.contains("[Verifier]") {
        "verifier"
    } else if msg.contains("out of bounds memory load") {
        "oob_load"
    } else if msg.contains("out of bounds memory store") {
        "oob_store"
    } else if msg.contains("unaligned atomic") {
        "unaligned"
    } else if msg.contains("unknown helper") {
        "unknown_helper"
    } else if msg.contains("too many nested calls") {
        "call_depth"
    } else if msg.contains("unsupported call type") {
        "bad_call_type"
    } else if msg.contains("TAIL_CALL") {
        "tail_call"
    } else if msg.contains("No program set") {
        "no_program"
    } else if msg.contains("has not been") {
        "not_compiled"
    } else if msg.contains("budget") {
        "budget"
    } else if msg.contains("[Verifier]") {
        "verifier"
    } else {
        "other"
    }
}

/// page-aligned writable+executable memory for the no_std JIT (which does not allocate its own)
#[cfg(not(feature = "std"))]
pub fn exec_mem() -> &'static mut [u8] {
    unsafe {
        let sz = 4 * 1024 * 1024;
        let p = libc::mmap(std::ptr::null_mut(), sz, libc::PROT_READ | libc::PROT_WRITE | libc::PROT_EXEC,
                           libc::MAP_PRIVATE | libc::MAP_ANONYMOUS, -1, 0);
        std::slice::from_raw_parts_mut(p as *mut u8, sz)
    }
}

macro_rules! jitc {
    ($vm:expr) => {
        jitc!($vm, 0usize)
    };
    ($vm:expr, $xoff:expr) => {
        jitc!($vm, $xoff, 0usize)
    };
    ($vm:expr, $xoff:expr, $xlen:expr) => {{
        // xoff: start the caller-supplied executable memory that many pages into the mapping; xlen: hand over only that many
        // bytes (0 = the rest of the mapping)  (no_std only)
        #[cfg(not(feature = "std"))]
        {
            let m = exec_mem();
            let k = ($xoff as usize) * 4096;
            let n = if ($xlen as usize) == 0 { m.len() - k } else { $xlen as usize };
            let _ = $vm.set_jit_exec_memory(&mut m[k..k + n]);
        }
        #[cfg(feature = "std")]
        {
            let _ = ($xoff, $xlen);
        }
        $vm.jit_compile()
    }};
}

pub struct RunReq {
    engine: String,
    kind: String,
    prog: Vec<u8>,
    mem: Vec<u8>,
    mbuff: Vec<u8>,
    xmem: Vec<u8>,
    ranges: Vec<(i128, i128)>,
    helpers: Vec<(u32, String)>,
    calc: Option<(u16, Vec<(usize, u16)>)>,
    budget: u64,
    at_end: bool,
    d: usize,
    e: usize,
    reps: usize,
    novf: bool,
    prev: bool,
    prevlen: usize,
    xoff: usize,
    xlen: usize,
}

fn parse_run(m: &HashMap<String, String>) -> RunReq {
    let g = |k: &str| m.get(k).cloned().unwrap_or_default();
    let mut ranges = vec![];
    for r in g("ranges").split(',').filter(|s| !s.is_empty()) {
        let (a, b) = r.split_once(':').unwrap();
        ranges.push((parse_i(a), parse_i(b)));
    }
    let mut helpers = vec![];
    for h in g("helpers").split(',').filter(|s| !s.is_empty()) {
        let (a, b) = h.split_once(':').unwrap();
        helpers.push((parse_i(a) as u32, b.to_string()));
    }
    let calc = match g("calc").as_str() {
        "" | "none" => None,
        s => {
            // default[;pc:val]*
            let mut it = s.split(';');
            let d = parse_i(it.next().unwrap()) as u16;
            let mut t = vec![];
            for e in it {
                let (a, b) = e.split_once(':').unwrap();
                t.push((parse_i(a) as usize, parse_i(b) as u16));
            }
            Some((d, t))
        }
    };
    RunReq {
        engine: if g("engine").is_empty() { "interp".into() } else { g("engine") },
        kind: if g("kind").is_empty() { "mbuff".into() } else { g("kind") },
        prog: unhex(&g("prog")),
        mem: unhex(&g("mem")),
        mbuff: unhex(&g("mbuff")),
        xmem: unhex(&g("xmem")),
        ranges,
        helpers,
        calc,
        budget: if g("budget").is_empty() { u64::MAX } else { parse_i(&g("budget")) as u64 },
        at_end: g("place") != "start",
        d: parse_i(if g("d").is_empty() { "0" } else { m.get("d").unwrap() }) as usize,
        e: parse_i(if g("e").is_empty() { "8" } else { m.get("e").unwrap() }) as usize,
        reps: if g("reps").is_empty() { 1 } else { parse_i(&g("reps")) as usize },
        novf: g("novf") == "1",
        prev: g("prev") == "1" || !g("prevlen").is_empty(),
        prevlen: if g("prevlen").is_empty() { 0 } else { parse_i(&g("prevlen")) as usize },
        xoff: if g("xoff").is_empty() { 0 } else { parse_i(&g("xoff")) as usize },
        xlen: if g("xlen").is_empty() { 0 } else { parse_i(&g("xlen")) as usize },
    }
}

fn exec_run(r: &RunReq) -> String {
    let prog: &'static [u8] = Box::leak(r.prog.clone().into_boxed_slice());
    let mem_p = arena::place(0, &r.mem, r.at_end);
    let mbuff_p = arena::place(1, &r.mbuff, r.at_end);
    let xmem_p = arena::place(2, &r.xmem, r.at_end);
    let mem: &'static mut [u8] = unsafe { std::slice::from_raw_parts_mut(mem_p, r.mem.len()) };
    let mbuff: &'static mut [u8] = unsafe { std::slice::from_raw_parts_mut(mbuff_p, r.mbuff.len()) };
    unsafe {
        HLOG.clear();
        HCOUNT = 0;
    }
    let mut status = String::new();
    macro_rules! setup {
        ($vm:expr) => {{
            for (id, name) in &r.helpers {
                if let Some(f) = helper_by_name(name) {
                    $vm.register_helper(*id, f).unwrap();
                }
            }
            for (o, l) in &r.ranges {
                let s = (xmem_p as u64).wrapping_add(*o as u64);
                $vm.register_allowed_memory(s..s.wrapping_add(*l as u64));
            }
            if let Some((d, t)) = &r.calc {
                let spec = CalcSpec { default: *d, table: t.iter().cloned().collect() };
                if let Err(_) = $vm.set_stack_usage_calculator(calc_fn, Box::new(spec)) {
                    status = "ERR:calc".to_string();
                }
            }
        }};
    }
    macro_rules! fin {
        ($res:expr) => {
            match $res {
                Ok(v) => format!("OK:{:x}", v),
                Err(e) => format!("ERR:{}", classify(&format!("{:?}", e))),
            }
        };
    }
    rbpf::verif_hooks::set_insn_budget(r.budget);
    let engine = r.engine.as_str();
    for _rep in 0..r.reps {
        rbpf::verif_hooks::set_insn_budget(r.budget);
        match r.kind.as_str() {
            "mbuff" => {
                let mut vm = match rbpf::EbpfVmMbuff::new(Some(prog)) {
                    Ok(vm) => vm,
                    Err(_) => return "ERR:verifier".to_string(),
                };
                setup!(vm);
                if !status.is_empty() {
                    break;
                }
                status = match engine {
                    "interp" => fin!(vm.execute_program(mem, mbuff)),
                    "jit" => match jitc!(vm, r.xoff, r.xlen) {
                        Err(_) => "ERR:compile".to_string(),
                        Ok(()) => unsafe {
                            let mb: &'static mut [u8] = std::slice::from_raw_parts_mut(mbuff_p, r.mbuff.len());
                            fin!(vm.execute_program_jit(mem, mb))
                        },
                    },
                    #[cfg(feature = "cranelift")]
                    "cl" => match vm.cranelift_compile() {
                        Err(_) => "ERR:compile".to_string(),
                        Ok(()) => {
                            let mb: &'static mut [u8] = unsafe { std::slice::from_raw_parts_mut(mbuff_p, r.mbuff.len()) };
                            fin!(vm.execute_program_cranelift(mem, mb))
                        }
                    },
                    _ => "BADENGINE".to_string(),
                };
            }
            "fixed" => {
                let mut vm = match rbpf::EbpfVmFixedMbuff::new(Some(prog), r.d, r.e) {
                    Ok(vm) => vm,
                    Err(_) => return "ERR:verifier".to_string(),
                };
                setup!(vm);
                if !status.is_empty() {
                    break;
                }
                let m2: &'static mut [u8] = unsafe { std::slice::from_raw_parts_mut(mem_p, r.mem.len()) };
                // prev=1: the same VM first executes on another packet (the xmem bytes), then on the real one
                // prevlen=N: ... or on the first N bytes of the real packet (same address, another length)
                let pv: &'static mut [u8] = if r.prevlen > 0 {
                    unsafe { std::slice::from_raw_parts_mut(mem_p, r.prevlen.min(r.mem.len())) }
                } else {
                    unsafe { std::slice::from_raw_parts_mut(xmem_p, r.xmem.len()) }
                };
                status = match engine {
                    "interp" => {
                        if r.prev {
                            let _ = vm.execute_program(pv);
                            rbpf::verif_hooks::set_insn_budget(r.budget);
                        }
                        fin!(vm.execute_program(m2))
                    }
                    "jit" => match jitc!(vm, r.xoff, r.xlen) {
                        Err(_) => "ERR:compile".to_string(),
                        Ok(()) => unsafe {
                            if r.prev {
                                let _ = vm.execute_program_jit(pv);
                            }
                            fin!(vm.execute_program_jit(m2))
                        },
                    },
                    #[cfg(feature = "cranelift")]
                    "cl" => match vm.cranelift_compile() {
                        Err(_) => "ERR:compile".to_string(),
                        Ok(()) => {
                            if r.prev {
                                let _ = vm.execute_program_cranelift(pv);
                            }
                            fin!(vm.execute_program_cranelift(m2))
                        }
                    },
                    _ => "BADENGINE".to_string(),
                };
            }
            "raw" => {
                let mut vm = match rbpf::EbpfVmRaw::new(Some(prog)) {
                    Ok(vm) => vm,
                    Err(_) => return "ERR:verifier".to_string(),
                };
                setup!(vm);
                if !status.is_empty() {
                    break;
                }
                let m2: &'static mut [u8] = unsafe { std::slice::from_raw_parts_mut(mem_p, r.mem.len()) };
                status = match engine {
                    "interp" => fin!(vm.execute_program(m2)),
                    "jit" => match jitc!(vm, r.xoff, r.xlen) {
                        Err(_) => "ERR:compile".to_string(),
                        Ok(()) => unsafe { fin!(vm.execute_program_jit(m2)) },
                    },
                    #[cfg(feature = "cranelift")]
                    "cl" => match vm.cranelift_compile() {
                        Err(_) => "ERR:compile".to_string(),
                        Ok(()) => fin!(vm.execute_program_cranelift(m2)),
                    },
                    _ => "BADENGINE".to_string(),
                };
            }
            "nodata" => {
                let mut vm = match rbpf::EbpfVmNoData::new(Some(prog)) {
                    Ok(vm) => vm,
                    Err(_) => return "ERR:verifier".to_string(),
                };
                setup!(vm);
                if !status.is_empty() {
                    break;
                }
                status = match engine {
                    "interp" => fin!(vm.execute_program()),
                    "jit" => match jitc!(vm, r.xoff, r.xlen) {
                        Err(_) => "ERR:compile".to_string(),
                        Ok(()) => unsafe { fin!(vm.execute_program_jit()) },
                    },
                    #[cfg(feature = "cranelift")]
                    "cl" => match vm.cranelift_compile() {
                        Err(_) => "ERR:compile".to_string(),
                        Ok(()) => fin!(vm.execute_program_cranelift()),
                    },
                    _ => "BADENGINE".to_string(),
                };
            }
            _ => return "BADKIND".to_string(),
        }
    }
    rbpf::verif_hooks::set_insn_budget(u64::MAX);
    let dmg = arena::canary_damage(0, mem_p, r.mem.len())
        + arena::canary_damage(1, mbuff_p, r.mbuff.len())
        + arena::canary_damage(2, xmem_p, r.xmem.len());
    let hlog: Vec<String> = unsafe { HLOG.iter().map(|v| format!("{:x}", v)).collect() };
    let _ = r.novf;
    format!(
        "{} mem={} mbuff={} xmem={} L={:x},{:x},{:x},{:x} dmg={} hc={} hlog={}",
        status,
        hex(unsafe { std::slice::from_raw_parts(mem_p, r.mem.len()) }),
        hex(unsafe { std::slice::from_raw_parts(mbuff_p, r.mbuff.len()) }),
        hex(unsafe { std::slice::from_raw_parts(xmem_p, r.xmem.len()) }),
        mem_p as u64,
        mbuff_p as u64,
        xmem_p as u64,
        rbpf::verif_hooks::last_stack_base(),
        dmg,
        unsafe { HCOUNT },
        if hlog.is_empty() { "-".to_string() } else { hlog.join(",") }
    )
}

/// run `f` in a forked child with an alarm; returns its output line or SIGNAL/TIMEOUT
pub fn forked<F: FnOnce() -> String>(timeout_s: u32, f: F) -> String {
    unsafe {
        let mut fds = [0i32; 2];
        if libc::pipe(fds.as_mut_ptr()) != 0 {
            return "FORKERR".to_string();
        }
        let pid = libc::fork();
        if pid < 0 {
            return "FORKERR".to_string();
        }
        if pid == 0 {
            libc::close(fds[0]);
            libc::alarm(timeout_s);
            let s = f();
            let b = s.as_bytes();
            let mut off = 0;
            while off < b.len() {
                let n = libc::write(fds[1], b[off..].as_ptr() as *const libc::c_void, b.len() - off);
                if n <= 0 {
                    break;
                }
                off += n as usize;
            }
            libc::_exit(0);
        }
        libc::close(fds[1]);
        let mut out = Vec::new();
        let mut buf = [0u8; 65536];
        loop {
            let n = libc::read(fds[0], buf.as_mut_ptr() as *mut libc::c_void, buf.len());
            if n <= 0 {
                break;
            }
            out.extend_from_slice(&buf[..n as usize]);
        }
        libc::close(fds[0]);
        let mut st = 0i32;
        libc::waitpid(pid, &mut st, 0);
        if libc::WIFSIGNALED(st) {
            let sig = libc::WTERMSIG(st);
            if sig == libc::SIGALRM {
                return "TIMEOUT".to_string();
            }
            return format!("SIGNAL:{}", sig);
        }
        String::from_utf8_lossy(&out).into_owned()
    }
}

pub fn cmd_run(m: &HashMap<String, String>) -> String {
    let r = parse_run(m);
    if r.engine == "interp" && m.get("fork").map(|s| s.as_str()) != Some("1") {
        let rr = std::panic::AssertUnwindSafe(&r);
        catch(move || exec_run(&rr))
    } else {
        let t = m.get("timeout").map(|s| parse_i(s) as u32).unwrap_or(10);
        forked(t, || {
            let rr = std::panic::AssertUnwindSafe(&r);
            catch(move || exec_run(&rr))
        })
    }
}

// ------------------------------------------------------------------ helpers

pub fn cmd_helper(p: &[&str]) -> String {
    // helper <name> a1 a2 a3 a4 a5 [buf1hex [buf2hex]]
    // pointer arguments: the literal strings `@1` / `@2` stand for the address of buf1 / buf2
    let name = p[0].to_string();
    let b1 = if p.len() > 6 { unhex(p[6]) } else { vec![] };
    let b2 = if p.len() > 7 { unhex(p[7]) } else { vec![] };
    let p1 = arena::place(3, &b1, true);
    let p2 = arena::place(4, &b2, true);
    let mut a = [0u64; 5];
    for i in 0..5 {
        a[i] = match p[1 + i] {
            "@1" => p1 as u64,
            "@2" => p2 as u64,
            s => parse_i(s) as u64,
        };
    }
    let (l1, l2) = (b1.len(), b2.len());
    forked(5, move || {
        catch(move || {
            #[cfg(feature = "std")]
            if name == "bpf_trace_printf" {
                // capture what the helper prints on stdout and count the bytes
                use std::io::Write;
                unsafe {
                    let mut fds = [0i32; 2];
                    libc::pipe(fds.as_mut_ptr());
                    std::io::stdout().flush().ok();
                    let saved = libc::dup(1);
                    libc::dup2(fds[1], 1);
                    libc::close(fds[1]);
                    let r = rbpf::helpers::bpf_trace_printf(a[0], a[1], a[2], a[3], a[4]);
                    std::io::stdout().flush().ok();
                    libc::dup2(saved, 1);
                    libc::close(saved);
                    let mut buf = [0u8; 4096];
                    let mut n = 0usize;
                    loop {
                        let k = libc::read(fds[0], buf.as_mut_ptr() as *mut libc::c_void, buf.len());
                        if k <= 0 {
                            break;
                        }
                        n += k as usize;
                    }
                    return format!("RET {:x} printed={}", r, n);
                }
            }
            let f = match helper_by_name(&name) {
                Some(f) => f,
                None => return "NOHELPER".to_string(),
            };
            let r = f(a[0], a[1], a[2], a[3], a[4]);
            format!(
                "RET {:x} {} {}",
                r,
                hex(unsafe { std::slice::from_raw_parts(p1, l1) }),
                hex(unsafe { std::slice::from_raw_parts(p2, l2) })
            )
        })
    })
}

// ------------------------------------------------------------------ API histories (C10)

fn vf_accept_all(_p: &[u8]) -> Result<(), rbpf::lib::Error> {
    Ok(())
}
fn vf_reject_all(_p: &[u8]) -> Result<(), rbpf::lib::Error> {
    Err(rbpf::lib::Error::other("[Verifier] reject-all"))
}
/// custom verifier: accepts exactly the programs whose last slot is `exit` and that contain no call
fn vf_ends_exit(p: &[u8]) -> Result<(), rbpf::lib::Error> {
    if p.len() >= 8 && p.len() % 8 == 0 && p[p.len() - 8] == 0x95 && !p.chunks(8).any(|c| c[0] == 0x85) {
        Ok(())
    } else {
        Err(rbpf::lib::Error::other("[Verifier] custom: no exit / has call"))
    }
}

pub fn cmd_api(p: &[&str]) -> String {
    // api <kind> <op>;<op>;...   ops:
    //   new:<proghex|none>  setp:<proghex>  setv:<default|accept|reject|exit>  helper:<id>:<name>
    //   calc:<default>  jit  cl  x  xj  xc      (x* run on packet `mem=<hex>` given once: mem:<hex>)
    // fixed kind: new and setp take `,d,e` suffixes
    let kind = p[0].to_string();
    let ops: Vec<String> = p[1].split(';').map(|s| s.to_string()).collect();
    forked(20, move || catch(move || api_run(&kind, &ops)))
}

fn api_run(kind: &str, ops: &[String]) -> String {
    let mut out: Vec<String> = vec![];
    let mut packet: Vec<u8> = vec![0u8; 16];
    macro_rules! r {
        ($e:expr) => {
            match $e {
                Ok(_) => "ok".to_string(),
                Err(e) => format!("err:{}", classify(&format!("{:?}", e))),
            }
        };
    }
    macro_rules! rv {
        ($e:expr) => {
            match $e {
                Ok(v) => format!("ok:{:x}", v),
                Err(e) => format!("err:{}", classify(&format!("{:?}", e))),
            }
        };
    }
    // `@<hex>`: the program is placed at the start of one buffer shared by the whole history, so that successive programs
    // begin at the same address (allowed only while the new bytes agree with what the buffer already holds on their common
    // prefix: slices handed out earlier are never modified; otherwise a fresh allocation is used, as without `@`)
    let shared: *mut u8 = Box::leak(vec![0u8; 4096].into_boxed_slice()).as_mut_ptr();
    let shared_len = std::cell::Cell::new(0usize);
    let leak = |h: &str| -> &'static [u8] {
        if let Some(hx) = h.strip_prefix('@') {
            let b = unhex(hx);
            let have = shared_len.get();
            let common = have.min(b.len());
            let old = unsafe { std::slice::from_raw_parts(shared as *const u8, common) };
            if b.len() <= 4096 && old == &b[..common] {
                if b.len() > have {
                    unsafe { std::ptr::copy_nonoverlapping(b[have..].as_ptr(), shared.add(have), b.len() - have) };
                    shared_len.set(b.len());
                }
                return unsafe { std::slice::from_raw_parts(shared as *const u8, b.len()) };
            }
            return Box::leak(b.into_boxed_slice());
        }
        Box::leak(unhex(h).into_boxed_slice())
    };
    let vf = |s: &str| -> rbpf::Verifier {
        match s {
            "accept" => vf_accept_all,
            "reject" => vf_reject_all,
            "exit" => vf_ends_exit,
            _ => |p| {
                // the default verifier is private: reach it through a throw-away VM
                rbpf::EbpfVmMbuff::new(Some(p)).map(|_| ())
            },
        }
    };
    macro_rules! common {
        ($vm:ident, $op:expr, $a:expr) => {
            match $op {
                "setv" => Some(r!($vm.set_verifier(vf($a[0])))),
                "helper" => {
                    let id = parse_i($a[0]) as u32;
                    Some(r!($vm.register_helper(id, helper_by_name($a[1]).unwrap())))
                }
                "calc" => {
                    let spec = CalcSpec { default: parse_i($a[0]) as u16, table: HashMap::new() };
                    Some(r!($vm.set_stack_usage_calculator(calc_fn, Box::new(spec))))
                }
                "jit" => Some(r!(jitc!($vm))),
                // setx: hand executable memory to the VM (only exists without std; "ok" either way);
                // jitx: jit_compile() with whatever memory the VM holds at that point
                "setx" => {
                    #[cfg(not(feature = "std"))]
                    {
                        let _ = $vm.set_jit_exec_memory(exec_mem());
                    }
                    Some("ok".to_string())
                }
                "jitx" => Some(r!($vm.jit_compile())),
                #[cfg(feature = "cranelift")]
                "cl" => Some(r!($vm.cranelift_compile())),
                _ => None,
            }
        };
    }
    let first: Vec<&str> = ops[0].split(':').collect();
    if first[0] != "new" {
        return "BADHISTORY".to_string();
    }
    let newarg: Vec<&str> = first[1].split(',').collect();
    let p0 = if newarg[0] == "none" { None } else { Some(leak(newarg[0])) };
    macro_rules! mk_packet {
        () => {{
            let pp = arena::place(0, &packet, true);
            let s: &'static mut [u8] = unsafe { std::slice::from_raw_parts_mut(pp, packet.len()) };
            s
        }};
    }
    macro_rules! mk_mbuff {
        () => {{
            let pp = arena::place(1, &[0u8; 32], true);
            let s: &'static mut [u8] = unsafe { std::slice::from_raw_parts_mut(pp, 32) };
            s
        }};
    }
    match kind {
        "mbuff" => {
            let mut vm = match rbpf::EbpfVmMbuff::new(p0) {
                Ok(v) => {
                    out.push("ok".into());
                    v
                }
                Err(_) => return "err:verifier".to_string(),
            };
            for o in &ops[1..] {
                let f: Vec<&str> = o.split(':').collect();
                let a = &f[1..];
                let res = if let Some(x) = common!(vm, f[0], a) {
                    x
                } else {
                    match f[0] {
                        "setp" => r!(vm.set_program(leak(a[0]))),
                        "mem" => {
                            packet = unhex(a[0]);
                            "ok".into()
                        }
                        "x" => rv!(vm.execute_program(mk_packet!(), mk_mbuff!())),
                        "xj" => unsafe { rv!(vm.execute_program_jit(mk_packet!(), mk_mbuff!())) },
                        #[cfg(feature = "cranelift")]
                        "xc" => rv!(vm.execute_program_cranelift(mk_packet!(), mk_mbuff!())),
                        _ => "badop".into(),
                    }
                };
                out.push(res);
            }
        }
        "fixed" => {
            let d = parse_i(newarg.get(1).unwrap_or(&"0")) as usize;
            let e = parse_i(newarg.get(2).unwrap_or(&"8")) as usize;
            let mut vm = match rbpf::EbpfVmFixedMbuff::new(p0, d, e) {
                Ok(v) => {
                    out.push("ok".into());
                    v
                }
                Err(_) => return "err:verifier".to_string(),
            };
            for o in &ops[1..] {
                let f: Vec<&str> = o.split(':').collect();
                let a = &f[1..];
                let res = if let Some(x) = common!(vm, f[0], a) {
                    x
                } else {
                    match f[0] {
                        "setp" => {
                            let aa: Vec<&str> = a[0].split(',').collect();
                            let d = parse_i(aa.get(1).unwrap_or(&"0")) as usize;
                            let e = parse_i(aa.get(2).unwrap_or(&"8")) as usize;
                            r!(vm.set_program(leak(aa[0]), d, e))
                        }
                        "mem" => {
                            packet = unhex(a[0]);
                            "ok".into()
                        }
                        "x" => rv!(vm.execute_program(mk_packet!())),
                        "xj" => unsafe { rv!(vm.execute_program_jit(mk_packet!())) },
                        #[cfg(feature = "cranelift")]
                        "xc" => rv!(vm.execute_program_cranelift(mk_packet!())),
                        _ => "badop".into(),
                    }
                };
                out.push(res);
            }
        }
        "raw" => {
            let mut vm = match rbpf::EbpfVmRaw::new(p0) {
                Ok(v) => {
                    out.push("ok".into());
                    v
                }
                Err(_) => return "err:verifier".to_string(),
            };
            for o in &ops[1..] {
                let f: Vec<&str> = o.split(':').collect();
                let a = &f[1..];
                let res = if let Some(x) = common!(vm, f[0], a) {
                    x
                } else {
                    match f[0] {
                        "setp" => r!(vm.set_program(leak(a[0]))),
                        "mem" => {
                            packet = unhex(a[0]);
                            "ok".into()
                        }
                        "x" => rv!(vm.execute_program(mk_packet!())),
                        "xj" => unsafe { rv!(vm.execute_program_jit(mk_packet!())) },
                        #[cfg(feature = "cranelift")]
                        "xc" => rv!(vm.execute_program_cranelift(mk_packet!())),
                        _ => "badop".into(),
                    }
                };
                out.push(res);
            }
        }
        "nodata" => {
            let mut vm = match rbpf::EbpfVmNoData::new(p0) {
                Ok(v) => {
                    out.push("ok".into());
                    v
                }
                Err(_) => return "err:verifier".to_string(),
            };
            for o in &ops[1..] {
                let f: Vec<&str> = o.split(':').collect();
                let a = &f[1..];
                let res = if let Some(x) = common!(vm, f[0], a) {
                    x
                } else {
                    match f[0] {
                        "setp" => r!(vm.set_program(leak(a[0]))),
                        "mem" => "ok".into(),
                        "x" => rv!(vm.execute_program()),
                        "xj" => unsafe { rv!(vm.execute_program_jit()) },
                        #[cfg(feature = "cranelift")]
                        "xc" => rv!(vm.execute_program_cranelift()),
                        _ => "badop".into(),
                    }
                };
                out.push(res);
            }
        }
        _ => return "BADKIND".to_string(),
    }
    out.join(" ")
}

// ------------------------------------------------------------------ concurrent xadd (C18)

pub fn cmd_xadd(m: &HashMap<String, String>) -> String {
    // xadd engines=interp,jit,cl threads=4 adds=10000 width=4|8 addend=<n> init=<n>
    let engines: Vec<String> = m.get("engines").cloned().unwrap_or("interp".into()).split(',').map(|s| s.to_string()).collect();
    let threads = parse_i(m.get("threads").map(|s| s.as_str()).unwrap_or("4")) as usize;
    let adds = parse_i(m.get("adds").map(|s| s.as_str()).unwrap_or("1000")) as i64;
    let width = parse_i(m.get("width").map(|s| s.as_str()).unwrap_or("8")) as usize;
    let addend = parse_i(m.get("addend").map(|s| s.as_str()).unwrap_or("1")) as u64;
    let init = parse_i(m.get("init").map(|s| s.as_str()).unwrap_or("0")) as u64;
    forked(120, move || {
        // shared word in the middle of a 24-byte area; neighbours must stay intact
        let area: &'static mut [u8] = Box::leak(vec![0xa5u8; 64].into_boxed_slice());
        let base = (area.as_ptr() as usize + 15) & !15usize;
        let word = base + 8;
        unsafe {
            if width == 8 {
                *(word as *mut u64) = init;
            } else {
                *(word as *mut u32) = init as u32;
            }
        }
        // program: r1 = word (lddw); r2 = addend (lddw); r3 = adds; loop: xadd [r1+0], r2; r3 -= 1; jne r3,0,-3; exit
        let mut prog: Vec<u8> = vec![];
        let lddw = |dst: u8, v: u64| -> Vec<u8> {
            let mut b = vec![0x18, dst, 0, 0];
            b.extend_from_slice(&(v as u32).to_le_bytes());
            b.extend_from_slice(&[0, 0, 0, 0]);
            b.extend_from_slice(&((v >> 32) as u32).to_le_bytes());
            b
        };
        prog.extend(lddw(1, word as u64));
        prog.extend(lddw(2, addend));
        prog.extend(lddw(3, adds as u64));
        prog.extend_from_slice(&[if width == 8 { 0xdb } else { 0xc3 }, 0x21, 0, 0, 0, 0, 0, 0]);
        prog.extend_from_slice(&[0x07, 3, 0, 0, 0xff, 0xff, 0xff, 0xff]); // add64 r3, -1
        prog.extend_from_slice(&[0x55, 3, 0xfd, 0xff, 0, 0, 0, 0]); // jne r3, 0, -3
        prog.extend_from_slice(&[0xb7, 0, 0, 0, 0, 0, 0, 0]);
        prog.extend_from_slice(&[0x95, 0, 0, 0, 0, 0, 0, 0]);
        let prog: &'static [u8] = Box::leak(prog.into_boxed_slice());
        rbpf::verif_hooks::set_insn_budget(u64::MAX);
        let mut hs = vec![];
        for t in 0..threads {
            let eng = engines[t % engines.len()].clone();
            hs.push(std::thread::spawn(move || -> bool {
                let mut vm = rbpf::EbpfVmNoData::new(Some(prog)).unwrap();
                vm.register_allowed_memory((base as u64)..(base as u64 + 24));
                match eng.as_str() {
                    "jit" => {
                        jitc!(vm).unwrap();
                        unsafe { vm.execute_program_jit().is_ok() }
                    }
                    #[cfg(feature = "cranelift")]
                    "cl" => {
                        // Cranelift confines accesses to packet/mbuff/stack: use a raw VM whose packet is the area
                        let mut vmr = rbpf::EbpfVmRaw::new(Some(prog)).unwrap();
                        vmr.cranelift_compile().unwrap();
                        let pk: &'static mut [u8] = unsafe { std::slice::from_raw_parts_mut(base as *mut u8, 24) };
                        vmr.execute_program_cranelift(pk).is_ok()
                    }
                    _ => vm.execute_program().is_ok(),
                }
            }));
        }
        let mut okc = 0;
        for h in hs {
            if h.join().unwrap_or(false) {
                okc += 1;
            }
        }
        let fin = unsafe { if width == 8 { *(word as *const u64) } else { *(word as *const u32) as u64 } };
        let nb = unsafe { std::slice::from_raw_parts(base as *const u8, 24) };
        format!("FINAL {:x} ok={} area={}", fin, okc, hex(nb))
    })
}

// ------------------------------------------------------------------ JIT bytes (C03/C12)

/// compile only (twice, on two VMs): `compile engine=jit|cl prog=<hex> [helpers=..]` -> first outcome second outcome
/// outcome = OK | ERR | VERIFIER (rejected by the verifier: not compiled)
pub fn cmd_compile(m: &HashMap<String, String>) -> String {
    let g = |k: &str| m.get(k).cloned().unwrap_or_default();
    let engine = g("engine");
    let prog = crate::unhex_pub(&g("prog"));
    let mut helpers = vec![];
    for h in g("helpers").split(',').filter(|s| !s.is_empty()) {
        let (a, b) = h.split_once(':').unwrap();
        helpers.push((parse_i(a) as u32, b.to_string()));
    }
    let t = m.get("timeout").map(|s| parse_i(s) as u32).unwrap_or(60);
    forked(t, move || {
        catch(move || {
            let prog: &'static [u8] = Box::leak(prog.clone().into_boxed_slice());
            let mut out = String::new();
            for _round in 0..2 {
                let mut vm = match rbpf::EbpfVmMbuff::new(Some(prog)) {
                    Ok(vm) => vm,
                    Err(_) => {
                        out.push_str("VERIFIER ");
                        continue;
                    }
                };
                for (id, name) in &helpers {
                    if let Some(f) = helper_by_name(name) {
                        vm.register_helper(*id, f).unwrap();
                    }
                }
                let r = match engine.as_str() {
                    "jit" => jitc!(vm).map_err(|_| ()),
                    #[cfg(feature = "cranelift")]
                    "cl" => vm.cranelift_compile().map_err(|_| ()),
                    _ => Err(()),
                };
                out.push_str(if r.is_ok() { "OK " } else { "ERR " });
            }
            out.trim_end().to_string()
        })
    })
}

pub fn cmd_jitbytes(_m: &HashMap<String, String>) -> String {
    "UNIMPLEMENTED".to_string()
}
