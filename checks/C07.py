"""C07 -- eBPF-to-eBPF calls preserve the caller's frame and callee-saved registers."""
import vlib
from checks import ebpf as B
from checks.interp_common import Case, run_cases, engine_compare
from checks import C01


def fold_regs():
    """r0 := mix of r6..r9 (so that any change of a callee-saved register shows in the result)"""
    out = B.mov(0, 0)
    for r in (6, 7, 8, 9):
        out += B.alu('mul', 0, imm=31) + B.alu('add', 0, src=r)
    return out


def gen_cases(chk):
    rng = vlib.Rng(chk.seed).fork('C07')
    thorough = chk.tier == 'thorough'
    cases = []
    vals = lambda: [rng.choice(B.B64) for _ in range(4)]  # noqa: E731
    # 1. callee clobbers r6-r9; caller folds them after the return  (forward and backward displacement)
    for _ in range(120 if thorough else 4):
        v = vals()
        pre = b''.join(B.load_const(6 + k, v[k]) for k in range(4))
        callee = b''.join(B.load_const(6 + k, rng.next()) for k in range(4)) + B.mov(0, 5) + B.EXIT
        post = fold_regs() + B.EXIT
        n_post = len(post) // 8
        # forward: [pre][call +n_post][post][callee]
        cases.append(Case(pre + B.callx(n_post) + post + callee, fam='callee-saved:fwd'))
        # backward: [ja over callee][callee][pre][call -k][post]
        n_callee = len(callee) // 8
        n_pre = len(pre) // 8
        cases.append(Case(B.ja(n_callee) + callee + pre + B.callx(-(n_callee + n_pre + 1)) + post, fam='callee-saved:back'))
    # 2. r0-r5 pass through call and return
    for _ in range(60 if thorough else 2):
        a = [rng.choice(B.B64) for _ in range(5)]
        pre = b''.join(B.load_const(1 + k, a[k]) for k in range(5))
        callee = B.movr(0, 1) + B.alu('xor', 0, src=2) + B.alu('add', 0, src=3) + B.alu('xor', 0, src=4) + B.alu('add', 0, src=5) + \
            B.alu('add', 3, imm=9) + B.EXIT
        post = B.alu('add', 0, src=3) + B.EXIT
        cases.append(Case(pre + B.callx(len(post) // 8) + post + callee, fam='args-results'))
    # 3. nesting depth 0..9 (each level calls the next; depth > 8 must be an error)
    for depth in range(0, 10):
        # function k: r0 += 1; (if k < depth) call k+1; exit     -- laid out consecutively
        body = []
        for k in range(depth + 1):
            f = B.alu('add', 0, imm=1)
            if k < depth:
                f += B.callx(1)       # next function starts right after this one's exit
            f += B.EXIT
            body.append(f)
        cases.append(Case(B.mov(0, 0) + b''.join(body), fam='depth:%d' % depth, budget=500))
    # 4. recursion bounded by a counter, backward displacement
    for n in (1, 3, 8, 9, 20):
        p = B.mov(1, n) + B.mov(0, 0) + B.callx(1) + B.EXIT + \
            B.alu('add', 0, imm=1) + B.alu('add', 1, imm=-1) + B.jmp('jeq', 1, 1, imm=0) + B.callx(-4) + B.EXIT
        cases.append(Case(p, fam='recursion:%d' % n, budget=2000))
    # 5. frames do not alias: caller stores below r10, callee stores at the same displacement, caller reloads
    for calc in (None, (64, []), (512, []), (0, []), (65535, []), (16, [(0, 32)])):
        for off in (-8, -16, -256):
            post = B.ldx('dw', 0, 10, off) + B.EXIT
            callee = B.load_const(3, 0x2222) + B.stx('dw', 10, 3, off) + B.mov(0, 0) + B.EXIT
            p = B.load_const(3, 0x1111) + B.stx('dw', 10, 3, off) + B.callx(len(post) // 8) + post + callee
            cases.append(Case(p, calc=calc, fam='frames:%s' % ('default' if calc is None else calc[0]), budget=200))
    # 6. r10 inside the callee is lower by the caller's frame size: callee returns caller_r10 - r10
    for calc in (None, (64, []), (8, [(0, 128)]), (300, [(4, 24)]), (511, []), (512, []), (513, []), (520, []), (1000, []), (65535, []), (8, [(0, 4096)])):
        post = B.EXIT
        callee = B.movr(0, 6) + B.alu('sub', 0, src=10) + B.EXIT
        p = B.movr(6, 10) + B.callx(1) + post + callee
        cases.append(Case(p, calc=calc, fam='r10-delta', budget=100))
    # 8. nested calls under a per-function calculator: the frame size of a NON-entry function (keyed by its entry pc) decides
    #    where its callee's frame lies -- r10 delta over two levels, and slot aliasing between level 1 and level 2
    for calc in ((16, [(0, 32), (3, 96)]), (48, [(3, 16)]), (256, [(3, 64), (0, 16)]), (16, [(2, 96), (4, 96)]), None,
                 (16, [(0, 1000), (3, 16)]), (16, [(0, 16), (3, 600)]), (513, [])):
        f2 = B.movr(0, 6) + B.alu('sub', 0, src=10) + B.EXIT
        p = B.movr(6, 10) + B.callx(1) + B.EXIT + B.callx(1) + B.EXIT + f2        # f1 at pc 3, f2 at pc 5
        cases.append(Case(p, calc=calc, fam='r10-delta-nested', budget=100))
        for off in (-8, -16):
            # f1 (pc 3): store 0x1111 at [r10+off]; call f2; reload -> r0.   f2: store 0x2222 at [r10+off]
            f1 = B.load_const(3, 0x1111) + B.stx('dw', 10, 3, off) + B.callx(2) + B.ldx('dw', 0, 10, off) + B.EXIT
            f2 = B.load_const(3, 0x2222) + B.stx('dw', 10, 3, off) + B.mov(0, 0) + B.EXIT
            p = B.mov(0, 0) + B.callx(1) + B.EXIT + f1 + f2
            cases.append(Case(p, calc=calc, fam='frames-nested', budget=200))
    # 9. chains of 1..8 nested calls under a per-function calculator with a different frame size for every function: each level
    #    adds (r10 before its call) - (r10 after the return) to r0, so any frame pointer that does not come back shows
    for depth in range(1, 9):
        for _ in range(6 if thorough else 2):
            body = B.mov(0, 0)
            entries = []
            for k in range(depth):
                entries.append(len(body) // 8)
                body += B.movr(7, 10) + B.callx(3) + B.alu('sub', 7, src=10) + B.alu('add', 0, src=7) + B.EXIT
            entries.append(len(body) // 8)
            body += B.EXIT
            table = [(pc, 8 * (1 + rng.below(6))) for pc in entries[1:]] + [(0, 8 * (1 + rng.below(6)))]
            cases.append(Case(body, calc=(8 * (1 + rng.below(6)), table), fam='chain-calc:%d' % depth, budget=400))
    # 10. a function that calls twice: the second callee's frame lies below the CALLER's frame size again, whatever function was
    #     entered last (main: call f1; call f2 -> f2 returns caller_r10 - r10; f1 / f2 have other frame sizes than main)
    for (a, b1, b2) in ((64, 16, 32), (16, 64, 128), (128, 8, 8), (24, 200, 40)):
        f2 = B.movr(0, 6) + B.alu('sub', 0, src=10) + B.EXIT
        f1 = B.mov(0, 0) + B.EXIT
        p = B.movr(6, 10) + B.callx(2) + B.callx(3) + B.EXIT + f1 + f2          # f1 at pc 4, f2 at pc 6
        cases.append(Case(p, calc=(a, [(4, b1), (6, b2)]), fam='second-call', budget=100))
        # the same callee twice: both calls see the same frame pointer
        g = B.movr(0, 10) + B.EXIT
        p = B.callx(4) + B.movr(7, 0) + B.callx(2) + B.alu('sub', 0, src=7) + B.EXIT + g      # g at pc 5
        cases.append(Case(p, calc=(a, [(5, b1)]), fam='second-call', budget=100))
        # nested: f1 (pc 3) calls f2 twice
        f1n = B.movr(6, 10) + B.callx(2) + B.callx(1) + B.EXIT                  # f1 at pc 2, f2 at pc 6
        p = B.callx(1) + B.EXIT + f1n + B.movr(0, 6) + B.alu('sub', 0, src=10) + B.EXIT
        cases.append(Case(p, calc=(a, [(2, b1), (6, b2)]), fam='second-call', budget=100))
    # 7. touching the stack below its 512 bytes is an error, not a crash
    p = B.callx(1) + B.EXIT + B.callx(1) + B.EXIT + B.load_const(3, 1) + B.stx('dw', 10, 3, -8) + B.mov(0, 0) + B.EXIT
    cases.append(Case(p, fam='stack-exhausted', budget=100))
    cases.append(Case(p, calc=(16, []), fam='stack-ok', budget=100))
    return cases


def jit_frame_alias(c):
    """known finding D18: engine = jit, a local call, and callee / caller use stack slots"""
    return c.fam.startswith('frames') or c.fam.startswith('r10-delta')


def run(chk):
    res = vlib.prove(chk, C01.UNITS + ['JitFrame', 'StackRs'], C01.MODELS + ['theories/X86Stk.vo', 'gen/JitFrame.vo', 'gen/StackRs.vo'], 'C07',
                     C01.PROOFS + ['theories/InterpCalls.v', 'theories/InterpArmsCall.v', 'theories/JitFrameProofs.v', 'theories/StackRsProofs.v'])
    found = False
    if res['model_ok']:
        binary = vlib.harness_build('debug')
        cases = gen_cases(chk)
        answers, bad, skipped = run_cases(chk, 'C07', cases, binary)
        fams = {}
        for c in cases:
            fams[c.fam.split(':')[0]] = fams.get(c.fam.split(':')[0], 0) + 1
        chk.cov['evaluations'] = len(cases)
        chk.cov['distinct_nontrivial'] = len({(c.prog, str(c.calc)) for c in cases})
        chk.cov['rule'] = ('call graphs: callee clobbering r6-r9 (forward/backward displacement), argument/result pass-through, nesting '
                           'depth 0..9, counter-bounded recursion, caller/callee stack slots at the same displacement under several '
                           'stack-usage calculators, r10 delta, stack exhaustion; every case executes at least one local call (non-trivial); '
                           'distinct = distinct (program, calculator)')
        chk.cov['input_distribution'] = {'families': fams, 'interp_outcomes': {}}
        for a in answers:
            k = a['raw'].split()[0].split(':')[0] if not a['raw'].startswith('ERR') else a['raw'].split()[0]
            chk.cov['input_distribution']['interp_outcomes'][k] = chk.cov['input_distribution']['interp_outcomes'].get(k, 0) + 1
        chk.cov['samples'] = [{'request': cases[i].line()[:300], 'implementation': answers[i]['raw'][:160]} for i in (0, 20, len(cases) - 1)]
        for i, cd in bad:
            found = True
            c = cases[i]
            if len(chk.violations) < 10:
                chk.violation({'kind': 'counterexample', 'request': c.line(), 'implementation_answer': answers[i]['raw'][:300], 'family': c.fam,
                               'engine': 'interp', 'meaning': ('call/return behaviour differs from the ISA specification' if cd >= 2 else
                                                                'model differs from implementation (tie B broken)')}, no_input=(cd == 1))
        # the x86-64 JIT on the same programs (without calculators: the JIT API has none)
        jcases = [c for c in cases if c.calc is None]
        eng, diffs = engine_compare(binary, jcases, engines=('jit',), kind='mbuff')
        chk.cov['jit_cases'] = len(jcases)
        known = dict(vlib.known_findings('C07'))
        for i, e, a, b in diffs:
            c = jcases[i]
            if jit_frame_alias(c) and 'D18-jit-frames-alias' in known:
                chk.known('D18-jit-frames-alias')
                continue
            found = True
            if len(chk.violations) < 10:
                chk.violation({'kind': 'counterexample', 'request': c.line(engine=e), 'interpreter_answer': a['raw'][:200],
                               'engine_answer': b['raw'][:200], 'family': c.fam, 'engine': e,
                               'meaning': 'compiled code differs from the interpreter on a local-call program'})
    vlib.report_broken(chk, res, found)
    chk.cov['trusted_base'] = ['Coq 8.16.1 kernel + vm_compute', 'no axioms', 'translator tools/rs2v (unit Interp)', 'Stack.v (hand model of stack.rs)',
                               'harness/; JIT part: differential only (x86 semantics not modelled for the call sequence)']
    chk.assumptions = ['usize is 64-bit', 'the JIT part of the property is checked by differential execution only']
    chk.cov['explanation'] = 'C07 theorems on the ISA step (= regenerated interpreter step); correspondence on call graphs; JIT compared with the interpreter'
