"""C09 -- each VM kind presents the documented execution context to the program."""
import vlib
from checks import ebpf as B
from checks.interp_common import Case, run_cases, parse_answer
from checks import C01

ENGINES = ('interp', 'jit', 'cl')


def probes():
    """(name, program, kinds it applies to, expected(answer_layout, case) -> value or None)"""
    P = []
    P.append(('r1', B.movr(0, 1) + B.EXIT))
    P.append(('others-zero-or-unspecified', B.mov(0, 0) + B.EXIT))
    # private stack: top and bottom bytes usable, zero-initialised for the interpreter
    P.append(('stack-top', B.load_const(3, 0x77) + B.stx('b', 10, 3, -1) + B.ldx('b', 0, 10, -1) + B.EXIT))
    P.append(('stack-bottom', B.load_const(3, 0x1122334455667788) + B.stx('dw', 10, 3, -512) + B.ldx('dw', 0, 10, -512) + B.EXIT))
    P.append(('mbuff-first-dw', B.ldx('dw', 0, 1, 0) + B.EXIT))
    P.append(('mbuff-last-w', B.ldx('w', 0, 1, 12) + B.EXIT))
    P.append(('ldabs0', B.ldabs('b', 0) + B.EXIT))
    P.append(('ldind1', B.mov(3, 1) + B.ldind('b', 3, 0) + B.EXIT))
    return P


def fixed_probes(d, e):
    def word(dst, off):
        """dst := the 8 bytes at metadata + off (offsets beyond the 16-bit displacement go through a register)"""
        if off <= 32767:
            return B.ldx('dw', dst, 1, off)
        return B.movr(dst, 1) + B.alu('add', dst, imm=off) + B.ldx('dw', dst, dst, 0)
    return [('fixed-len', word(2, d) + word(3, e) + B.movr(0, 3) + B.alu('sub', 0, src=2) + B.EXIT),
            ('fixed-start', word(0, d) + B.EXIT),
            ('fixed-first-byte', word(2, d) + B.ldx('b', 0, 2, 0) + B.EXIT),
            ('fixed-last-byte', word(3, e) + B.ldx('b', 0, 3, -1) + B.EXIT)]


def run(chk):
    res = vlib.prove(chk, C01.UNITS + ['Clir', 'JitFrame', 'LibWrap'], C01.MODELS + ['theories/ClirSem.vo', 'gen/Clir.vo', 'theories/X86Stk.vo', 'gen/JitFrame.vo', 'gen/LibWrap.vo'], 'C09',
                     C01.PROOFS + ['theories/ClirProofs.v', 'theories/JitFrameProofs.v', 'theories/LibWrapProofs.v', 'theories/JitEntry.v'])
    found = False
    if res['model_ok']:
        binary = vlib.harness_build('debug')
        rng = vlib.Rng(chk.seed).fork('C09')
        lines, meta = [], []
        lens = [0, 1, 7, 8, 9, 1500] if chk.tier != 'thorough' else [0, 1, 2, 7, 8, 9, 15, 16, 17, 63, 64, 65, 255, 1500, 4096, 9000]
        for kind in ('mbuff', 'raw', 'nodata'):
            for ln in lens:
                pk = bytes((3 * i + 5) & 255 for i in range(ln))
                for name, prog in probes():
                    if name.startswith('mbuff-') and kind != 'mbuff':
                        continue
                    for eng in ENGINES:
                        c = Case(prog, mem=pk, mbuff=bytes(range(16)) if kind == 'mbuff' else b'', fam=name)
                        lines.append(c.line(engine=eng, kind=kind))
                        meta.append((kind, eng, name, pk, None, c))
        offs = [(0, 8), (8, 0), (0x40, 0x50), (0x50, 0x40), (0, 4096), (7, 15), (15, 7), (24, 8)]
        if chk.tier == 'thorough':
            offs += [(1, 9), (9, 1), (3, 100), (100, 3), (0, 65536), (65536, 0), (8, 16), (16, 8), (1000, 2000), (4095, 4103)]
        for (d, e) in offs:
            for ln in lens:
                pk = bytes((7 * i + 1) & 255 for i in range(ln))
                extra = [('ldabs0', B.ldabs('b', 0) + B.EXIT), ('ldind1', B.mov(3, 1) + B.ldind('b', 3, 0) + B.EXIT)]
                if ln >= 8:
                    extra.append(('ldabs-last-dw', B.ldabs('dw', ln - 8) + B.EXIT))
                    extra.append(('ldind-last-h', B.mov(3, ln - 4) + B.ldind('h', 3, 2) + B.EXIT))
                for name, prog in fixed_probes(d, e) + extra:
                    for eng in ENGINES:
                        for reps in (1, 2):
                            c = Case(prog, mem=pk, fam=name)
                            lines.append(c.line(engine=eng, kind='fixed') + ' d=%d e=%d reps=%d' % (d, e, reps))
                            meta.append(('fixed', eng, name, pk, (d, e), c))
                        # the same VM executed first on another packet: the buffer must describe the current packet, not the earlier one
                        for prev in (bytes(range(1, 7)) + pk, bytes(max(2000, ln + 100))):      # longer than the packet: the probes stay in bounds there
                            c = Case(prog, mem=pk, xmem=prev, fam=name + ':after-other-packet')
                            lines.append(c.line(engine=eng, kind='fixed') + ' d=%d e=%d prev=1' % (d, e))
                            meta.append(('fixed', eng, name, pk, (d, e), c))
                        # ... and first on a shorter packet at the same address (a receive buffer reused with another length): both words
                        # must be rewritten on every execution
                        if name.startswith('fixed-') and ln >= 2:
                            for pl in sorted({1, ln // 2}):
                                c = Case(prog, mem=pk, fam=name + ':after-shorter-prefix')
                                lines.append(c.line(engine=eng, kind='fixed') + ' d=%d e=%d prevlen=%d' % (d, e, pl))
                                meta.append(('fixed', eng, name, pk, (d, e), c))
        answers = [parse_answer(x) for x in vlib.harness_run(binary, lines)]
        nchecked = 0
        outs = {}
        for (kind, eng, name, pk, de, c), a, line in zip(meta, answers, lines):
            outs[(kind, eng)] = outs.get((kind, eng), 0) + 1
            L = a.get('L')
            exp = None      # None = no expectation for this combination
            ln = len(pk)
            if a['status'] == 9:
                exp = 'no-crash'
            if name == 'r1' and L:
                if kind == 'mbuff':
                    exp = L[1]
                elif kind == 'raw':
                    exp = L[0] if ln else 0
                else:
                    exp = 0
            elif name == 'mbuff-first-dw':
                exp = int.from_bytes(bytes(range(8)), 'little')
            elif name == 'mbuff-last-w':
                exp = int.from_bytes(bytes(range(12, 16)), 'little')
            elif name == 'stack-top':
                exp = 0x77
            elif name == 'stack-bottom':
                exp = 0x1122334455667788
            elif name == 'ldabs0':
                exp = pk[0] if ln >= 1 and kind != 'nodata' else 'err'
            elif name == 'ldind1':
                exp = pk[1] if ln >= 2 and kind != 'nodata' else 'err'
            elif name == 'ldabs-last-dw':
                exp = int.from_bytes(pk[-8:], 'little')
            elif name == 'ldind-last-h':
                exp = int.from_bytes(pk[-2:], 'little')
            elif name == 'fixed-len':
                exp = ln
            elif name == 'fixed-start' and L:
                exp = L[0] if ln else None     # an empty packet has no first byte (the JIT passes null, the others the dangling slice address): only start == end is required (fixed-len)
            elif name == 'fixed-first-byte':
                exp = pk[0] if ln else 'err'
            elif name == 'fixed-last-byte':
                exp = pk[-1] if ln else 'err'
            if exp is None:
                continue
            nchecked += 1
            ok = True
            if exp == 'err':
                # the interpreter must report an error; compiled code has no run-time errors (unsafe by contract): skipped
                ok = (a['status'] == 1) if eng == 'interp' else True
            elif exp == 'no-crash':
                ok = False
            else:
                ok = a['status'] == 0 and a['val'] == exp
            if not ok:
                found = True
                if len(chk.violations) < 12:
                    chk.violation({'kind': 'counterexample', 'request': line, 'answer': a['raw'][:200], 'expected': str(exp),
                                   'vm_kind': kind, 'engine': eng, 'probe': name,
                                   'meaning': 'the execution context seen by the program differs from the documented one'})
        chk.cov['evaluations'] = len(lines)
        chk.cov['distinct_nontrivial'] = nchecked
        chk.cov['rule'] = ('probe programs (r1, private stack top/bottom, absolute/indirect packet load, the two words of the fixed metadata '
                           'buffer) x 4 VM kinds x 3 engines x packet lengths {0,1,7,8,9,1500} x 8 (data, data_end) offset pairs x 1 or 2 '
                           'successive executions (fresh VM each) and executions after the same VM ran on another packet; non-trivial = a case with an expected value derived from the layout (counted)')
        chk.cov['input_distribution'] = {'%s/%s' % k: v for k, v in outs.items()}
        chk.cov['samples'] = [{'request': lines[i][:260], 'answer': answers[i]['raw'][:120]} for i in (0, 400, len(lines) - 1)]
    vlib.report_broken(chk, res, found)
    chk.cov['trusted_base'] = ['Coq 8.16.1 kernel', 'no axioms', 'translator tools/rs2v (register initialisation of interpreter.rs)',
                               'harness/ (fixed-address buffers); lib.rs wrappers and the JIT/Cranelift prologues are exercised, not modelled']
    chk.assumptions = ['buffers are placed at known addresses by the harness']
    chk.cov['explanation'] = 'C09 theorems: regenerated register initialisation = specified entry state; all kinds x engines probed against values derived from the layout'
