"""C13 -- the assembler emits exactly the encoding each mnemonic and operand list denotes."""
import vlib
from checks import asm_common as A

UNITS = ['Opcodes', 'Codec', 'Asm']
MODELS = ['theories/Cases.vo', 'theories/AsmModel.vo', 'theories/AsmSpec.vo']
PROOFS = ['theories/AsmProofs.v', 'theories/AsmEncode.v', 'theories/CodecProofs.v', 'theories/NumText.v', 'theories/TextParse.v', 'theories/GenText.v', 'theories/AsmText.v']

EXTRA = '''
From RbpfV Require Import AsmSpec.
Definition spec_of (src : list Z) : res (list Z) :=
  match parse U0 src with
  | Ok parsed => match denote_prog parsed with Some l => Ok (bytes_of_insns l) | None => Err 0 end
  | Err e => Err e
  | Panic s => Panic s
  | OutOfFuel => OutOfFuel
  end.
(* code 1: model <> implementation; code 2: implementation <> specification (of the parsed text) *)
Definition check13 (c : list Z * outcome (list Z)) : Z :=
  (if res_matches list_eqb (assemble U0 (fst c)) (snd c) then 0 else 1)
  + (if res_matches list_eqb (spec_of (fst c)) (snd c) then 0 else 2).
'''


def gen_texts(chk):
    """-> list of (text, family, expected bytes | 'ERR' | None)"""
    rng = vlib.Rng(chk.seed).fork('C13')
    thorough = chk.tier == 'thorough'
    out = []
    # every mnemonic, canonical and fancy spellings, in-range operands: expected bytes known
    for fancy in (0, 1):
        sp = A.Speller(rng, fancy)
        for name in sorted(A.TABLE):
            for _ in range((10 if thorough else 3) * (1 + fancy)):
                t, e = A.gen_insn(rng, sp, name=name)
                out.append((t, 'mnemonic', b''.join(A.slot_bytes(s) for s in e)))
    # operands around the range limits: expected bytes or an error
    sp = A.Speller(rng, 1)
    for _ in range(4000 if thorough else 900):
        t, e = A.gen_insn(rng, sp, in_range=False)
        out.append((t, 'limits', 'ERR' if e is None else b''.join(A.slot_bytes(s) for s in e)))
    # programs: source order
    for _ in range(1500 if thorough else 300):
        t, e = A.gen_program(rng, sp, 2 + rng.below(5), in_range=rng.chance(4, 5))
        out.append((t, 'program', 'ERR' if e is None else b''.join(A.slot_bytes(s) for s in e)))
    # a known mnemonic with one more suffix is another, unknown, mnemonic: an error, never the base instruction
    sp0 = A.Speller(rng, 0)
    for name in sorted(A.TABLE):
        for suf in ('64', '32', '6464', '3264', '16', 'x', '0'):
            if name + suf in A.TABLE:
                continue
            t, e = A.gen_insn(rng, sp0, name=name)
            if t.startswith(name):
                out.append((name + suf + t[len(name):], 'suffixed', 'ERR'))
    # unknown mnemonics / wrong shapes / malformed: an error (no expectation computed here unless certain)
    for _ in range(3000 if thorough else 600):
        out.append((A.malformed(rng, sp), 'malformed', None))
    return out


def run(chk):
    res = vlib.prove(chk, UNITS, MODELS, 'C13', PROOFS)
    found = False
    if res['model_ok']:
        binary = vlib.harness_build('debug')
        tx = gen_texts(chk)
        texts = [x[0] for x in tx]
        answers, bad, header = A.model_compare('C13', binary, texts, extra_header=EXTRA, check_fn='check13')
        fams, outs = {}, {}
        nexp = 0
        for (t, f, exp), a in zip(tx, answers):
            fams[f] = fams.get(f, 0) + 1
            outs[a.split()[0]] = outs.get(a.split()[0], 0) + 1
        bad = dict(bad)
        # independent expectation computed by the generator (documented syntax -> fields -> bytes)
        for i, ((t, f, exp), a) in enumerate(zip(tx, answers)):
            if exp is None:
                continue
            nexp += 1
            got = a.split()
            ok = (got[0] == 'ERR') if exp == 'ERR' else (got[0] == 'OK' and (bytes.fromhex(got[1]) if len(got) > 1 and got[1] != '-' else b'') == exp)
            if not ok:
                bad[i] = bad.get(i, 0) | 8
        chk.cov['evaluations'] = len(texts)
        chk.cov['distinct_nontrivial'] = len(set(texts))
        chk.cov['with_independent_expectation'] = nexp
        chk.cov['rule'] = ('every mnemonic x operand shapes x registers 0..16+ x offsets / immediates in and around their ranges x 64-bit lddw values, '
                           'numbers spelled in decimal / hexadecimal (upper and lower case) with optional sign and leading zeros, varied whitespace; '
                           'programs of 2..6 instructions (source order); malformed text; each compared with the model, with the Coq specification '
                           'of the parsed text, and (where the generator knows the intended fields) with independently computed bytes')
        chk.cov['input_distribution'] = {'families': fams, 'implementation_outcomes': outs}
        chk.cov['samples'] = [{'request': repr(texts[i])[:200], 'implementation': answers[i][:100]} for i in (0, 500, len(texts) - 1)]
        # concrete disagreements with the specification / the independent expectation first, model-vs-implementation ones after
        for i in sorted(bad, key=lambda k: (bad[k] == 1, k))[:10]:
            cd = bad[i]
            found = True
            crashed = cd == 4
            chk.violation({'kind': 'counterexample', 'request': 'asm ' + texts[i].encode('utf-8').hex(), 'text': texts[i][:500],
                           'implementation_answer': answers[i][:300],
                           'intended': None if tx[i][2] is None else (tx[i][2] if tx[i][2] == 'ERR' else tx[i][2].hex()),
                           'model_and_spec': '' if crashed else vlib.coq_show('C13', header, '(assemble U0 %s, spec_of %s)' % (A.codepoints(texts[i]), A.codepoints(texts[i])))[:400],
                           'engine': 'assembler', 'profile': 'debug', 'code': cd,
                           'meaning': ('assemble panicked' if crashed else 'emitted bytes / error differ from what the text denotes' if cd & 10 else
                                       'model differs from implementation (tie B broken)')}, no_input=(cd == 1))
    vlib.report_broken(chk, res, found)
    chk.cov['trusted_base'] = ['Coq 8.16.1 kernel + vm_compute', 'no axioms', 'translator tools/rs2v (units Asm, Codec, Opcodes)',
                               'theories/AsmSpec.v (mnemonic table, shapes, ranges)', 'theories/AsmParser.v + AsmModel.v glue: hand models tied by the correspondence',
                               'the generator\'s own text -> fields -> bytes computation (independent expectation)', 'harness/']
    chk.assumptions = ['the parser is the hand model AsmParser.v (tie B); theorem C13_text covers the documented syntax with ASCII white space; a mnemonic glued '
                       'to an operand that starts with a sign or bracket (`ja+5`) and non-ASCII white space are outside the grammar of the theorem (evaluated)']
    chk.cov['explanation'] = ('theorems C13_instruction / C13_program: regenerated instruction map + encode + insn + lddw split = specified denotation for every '
                              'mnemonic string and operand list, errors exactly where the specification has none; correspondence on spelled text')
