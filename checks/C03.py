"""C03 -- x86-64 JIT-compiled code computes the same result as the interpreter."""
import vlib
from checks import compiled_common as CC
from checks import C07

UNITS = ['Opcodes', 'Codec', 'Verifier', 'JitLogic', 'JitEnc', 'JitArms', 'JitMulDiv', 'JitMisc', 'ClMisc', 'JitFrame']
MODELS = ['theories/Verifier.vo', 'gen/JitLogic.vo', 'theories/X86Enc.vo', 'gen/JitEnc.vo', 'theories/X86Sem.vo', 'gen/JitArms.vo', 'theories/X86Seq.vo', 'gen/JitMulDiv.vo', 'gen/JitMisc.vo', 'theories/X86Stk.vo', 'gen/JitFrame.vo']
PROOFS = ['theories/JitLogicProofs.v', 'theories/JitEncProofs.v', 'theories/JitArmsProofs.v', 'theories/JitMulDivProofs.v', 'theories/JitMiscProofs.v', 'theories/JitFrameProofs.v', 'theories/ClMiscProofs.v', 'theories/VerifierProofs.v', 'theories/InterpProofs.v']
ENGINE = 'jit'


def run(chk, engine=ENGINE, prop='C03'):
    res = vlib.prove(chk, UNITS if prop == 'C03' else ['Opcodes', 'Codec', 'Verifier', 'ClAlu', 'ClJmp', 'ClMem', 'ClMisc', 'ClCfg', 'Clir'],
                     MODELS if prop == 'C03' else ['theories/ClirSem.vo', 'gen/ClAlu.vo', 'gen/ClJmp.vo', 'gen/ClMem.vo', 'gen/ClMisc.vo', 'gen/ClCfg.vo', 'theories/Verifier.vo'], prop,
                     PROOFS if prop == 'C03' else ['theories/ClAluProofs.v', 'theories/ClJmpProofs.v', 'theories/ClMemProofs.v', 'theories/ClMiscProofs.v', 'theories/ClCfgProofs.v', 'theories/VerifierProofs.v', 'theories/InterpProofs.v'])
    found = False
    if res['model_ok']:
        binary = vlib.harness_build('debug')
        cases = CC.corpus(chk, prop)
        diffs, stats = CC.compare(binary, cases, engine)
        fams = {}
        for c in cases:
            fams[c.fam.split(':')[0]] = fams.get(c.fam.split(':')[0], 0) + 1
        known = dict(vlib.known_findings(prop))
        nlocal = 0
        if engine == 'jit':
            # programs with eBPF-to-eBPF calls (C07's call graphs): the frame-pointer defect is a listed finding
            import copy
            cg = [c for c in C07.gen_cases(chk) if c.calc is None]
            d2, s2 = CC.compare(binary, cg, engine, kinds=('raw',))
            nlocal = len(cg)
            stats.update({'localcalls:' + k: v for k, v in s2.items()})
            for (c, kind, l, a, b) in d2:
                if C07.jit_frame_alias(c) and 'D18-jit-frames-alias' in known:
                    chk.known('D18-jit-frames-alias')
                else:
                    diffs.append((c, kind, l, a, b))
        else:
            # a program containing a local call must be refused by Cranelift compilation, never compiled into something else
            from checks import C08
            cg = [c for c in C07.gen_cases(chk) if C08.has_local_call(c.prog)]
            ans = vlib.harness_run(binary, [c.line(engine='cl', kind='raw') for c in cg])
            nlocal = len(cg)
            for c, a in zip(cg, ans):
                if not a.startswith('ERR:compile'):
                    found = True
                    if len(chk.violations) < 10:
                        chk.violation({'kind': 'counterexample', 'request': c.line(engine='cl', kind='raw'), 'answer': a[:200], 'family': c.fam,
                                       'meaning': 'a program with an eBPF-to-eBPF call was not refused by Cranelift compilation'})
        for (c, kind, l, a, b) in diffs:
            found = True
            if len(chk.violations) < 10:
                chk.violation({'kind': 'counterexample', 'request': l if len(l) < 4000 else l[:200] + '...(long program, family %s)' % c.fam,
                               'interpreter_answer': a['raw'][:200], 'engine_answer': b['raw'][:200], 'family': c.fam, 'vm_kind': kind, 'engine': engine,
                               'meaning': 'compiled code returns a different value / leaves different bytes than the interpreter (= the ISA, theorem C01)'})
        chk.cov['evaluations'] = sum(stats.values()) + nlocal
        chk.cov['distinct_nontrivial'] = len({c.prog for c in cases})
        chk.cov['rule'] = ('every ALU opcode (32/64, imm/reg) x all 10 destination x 10 source registers x boundary immediates / operand values, byte swaps, lddw, '
                           'every conditional jump (64/32, imm/reg) x register pairs with operands on both sides of the boundary, every load / store / atomic add '
                           'width x base register (r1..r10) x displacement boundaries (-129..256), absolute / indirect loads, loops, back edges, dead code, '
                           'programs above 65535 instructions, random straight-line programs; all on the raw VM, every 3rd also on the mbuff / no-data / '
                           'fixed-metadata VMs; plus the call graphs of C07; only cases where the interpreter returns a value are compared')
        chk.cov['input_distribution'] = {'families': fams, 'runs': stats}
        chk.cov['samples'] = [{'request': cases[i].line(engine=engine, kind='raw')[:200]} for i in (0, len(cases) // 2)]
    vlib.report_broken(chk, res, found)
    chk.cov['trusted_base'] = ['Coq 8.16.1 kernel', 'no axioms', 'translator tools/rs2v',
                               'NOT modelled: the emitted machine code and its execution (x86-64 encodings, Cranelift code generation): compared with the '
                               'interpreter by execution only', 'harness/ (child process per run)']
    chk.assumptions = ['PARTIAL: see props/%s.v for exactly what is proved' % prop, 'the interpreter is the reference; its equality with the ISA is theorem C01 '
                       '(D7 forms excluded from the corpus)']
    chk.cov['explanation'] = ('logic theorems over regenerated compiler code + differential execution of the compiled code against the interpreter '
                              'on a corpus built to cover every opcode, register pair, encoding boundary and VM kind')
