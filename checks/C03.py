"""C03 -- x86-64 JIT-compiled code computes the same result as the interpreter."""
import vlib
from checks import compiled_common as CC
from checks import C07

UNITS = ['Opcodes', 'Codec', 'Verifier', 'Interp', 'JitLogic', 'JitEnc', 'JitArms', 'JitMulDiv', 'JitMisc', 'ClMisc', 'JitFrame']
MODELS = ['theories/Verifier.vo', 'gen/JitLogic.vo', 'theories/X86Enc.vo', 'gen/JitEnc.vo', 'theories/X86Sem.vo', 'gen/JitArms.vo', 'theories/X86Seq.vo', 'gen/JitMulDiv.vo', 'gen/JitMisc.vo', 'theories/X86Stk.vo', 'gen/JitFrame.vo']
PROOFS = ['theories/JitLogicProofs.v', 'theories/JitEncProofs.v', 'theories/JitArmsProofs.v', 'theories/JitMulDivProofs.v', 'theories/JitMiscProofs.v', 'theories/JitFrameProofs.v', 'theories/ClMiscProofs.v', 'theories/ClStep.v', 'theories/JitStep.v', 'theories/JitRun.v', 'theories/IsaDef.v', 'theories/DefRun.v', 'theories/VerifierProofs.v', 'theories/InterpProofs.v']
ENGINE = 'jit'

CL_HEADER = '''From Coq Require Import ZArith List Bool.
From RbpfV Require Import MachInt Ebpf Cases Mem InterpDefs Stack Helpers Interp Isa ClStep ClRun.
Import ListNotations.
Open Scope Z_scope.
Definition data_of (m : mem) (k : nat) : list Z := r_data (nth k m {| r_base := 0; r_data := [] |}).
(* st: 0 = the compiled code returned v, 1 = it trapped (v = ETrap).  The model's stack lives at an address of its own. *)
Definition check_cl (prog : list Z) (mbuff mem_ : region) (helpers : list (Z * Z)) (fuel st v : Z) (xmbuff xmem_ : list Z) : Z :=
  let E := mk_env prog (helpers_of helpers) (fun _ => None) mbuff mem_ 0x700000000000 [] in
  let m0 := mk_mem mbuff mem_ 0x700000000000 {| r_base := 0x7f0000000000; r_data := [] |} in
  match cl_run (Z.to_nat fuel) E m0 with
  | ODone r m => if (st =? 0) && (r =? v) && list_eqb (data_of m 0) xmbuff && list_eqb (data_of m 1) xmem_ then 0 else 1
  | OErr e _ => if (st =? 1) && (e =? v) then 0 else 1
  | _ => 1
  end.
'''


JIT_HEADER = '''From Coq Require Import ZArith List Bool.
From RbpfV Require Import MachInt Ebpf Cases Mem InterpDefs Stack Helpers Interp Isa X86Sem JitStep JitRun.
Import ListNotations.
Open Scope Z_scope.
Definition data_of (m : mem) (k : nat) : list Z := r_data (nth k m {| r_base := 0; r_data := [] |}).
(* the raw VM: r1 (rdi) = R10 = packet address, rbp = top of a 512-byte stack of the model's own; every other register 0,
   and 0 left by the helpers in the caller-saved registers *)
Definition check_jit (prog : list Z) (mem_ : region) (helpers : list (Z * Z)) (fuel v : Z) (xmem_ : list Z) : Z :=
  let mb := {| r_base := 0x10; r_data := [] |} in
  let E := mk_env prog (helpers_of helpers) (fun _ => None) mb mem_ 0x700000000000 [] in
  let m0 := mk_mem mb mem_ 0x700000000000 {| r_base := 0x7f0000000000; r_data := [] |} in
  let base := r_base mem_ in
  let R0 : regs := fun x => if x =? 10 then base else if x =? 7 then base else if x =? 5 then 0x700000000200 else 0 in
  match jit_steps (fun _ _ => 0) (Z.to_nat fuel) E (R0, 0, m0) with
  | ODone r m => if (r =? v) && list_eqb (data_of m 1) xmem_ then 0 else 1
  | _ => 1
  end.
'''


def jit_model_correspondence(chk, binary, cases):
    """the hand-written composition JitStep.jit_exec / JitRun.jit_steps (what C03_step_simulates / C03_run_refines speak
    about) evaluated inside Coq against the real JIT-compiled code on the raw VM, for programs without local calls"""
    from checks.interp_common import parse_answer, region
    from vlib import zhex

    from checks.interp_common import HELPER_CODES

    def has_local_call(p):
        return any(p[k] == 0x85 and (p[k + 1] >> 4) != 0 for k in range(0, len(p), 8))
    sel = [c for c in cases if len(c.prog) <= 1600 and not c.ranges and not has_local_call(c.prog) and all(n in HELPER_CODES for _, n in c.helpers)]
    sel = sel[::1 if chk.tier == 'thorough' else 3]
    ans = [parse_answer(x) for x in vlib.harness_run(binary, [c.line(engine='jit', kind='raw') for c in sel])]
    terms, idx, outs = [], [], {}
    for i, (c, a) in enumerate(zip(sel, ans)):
        tag = a['raw'].split()[0].split(':')[0]
        outs[tag] = outs.get(tag, 0) + 1
        if a['status'] != 0 or 'L' not in a:
            continue
        memb = a['L'][0]
        terms.append('(check_jit %s %s %s %d %d %s)' % (zhex(c.prog), region(memb, c.mem), '[%s]' % '; '.join('(%d, %d)' % (i2, HELPER_CODES[n]) for i2, n in reversed(c.helpers)),
                                                         c.budget, a['val'], zhex(a['mem'])))
        idx.append(i)
    bad, errors = vlib.coq_eval('C03jit', JIT_HEADER, terms, '(fun c => c)', shard_size=120)
    if errors:
        raise vlib.Broken('JIT model evaluation failed: ' + errors[0])
    chk.cov['model_correspondence'] = {'what': 'JitRun.jit_steps (vm_compute) = the JIT-compiled code on the raw VM: value and final packet bytes',
                                       'compared': len(terms), 'engine_outcomes': outs, 'disagreements': len(bad)}
    return [(sel[idx[i]], ans[idx[i]]) for i, _ in bad]


def cl_model_correspondence(chk, binary, cases):
    """the hand-written composition ClStep.cl_exec / ClRun.cl_run (what the theorems C04_step_refines / C04_run_refines speak
    about) evaluated inside Coq against the real Cranelift-compiled code, on the raw and the mbuff VM"""
    from checks.interp_common import parse_answer, region, HELPER_CODES
    from vlib import zhex
    import copy
    sel = [c for c in cases if len(c.prog) <= 1600 and not c.ranges and all(n in HELPER_CODES for _, n in c.helpers)]
    sel = sel[::1 if chk.tier == 'thorough' else 3]
    runs = []
    for k, c in enumerate(sel):
        runs.append((c, 'raw'))
        if k % 4 == 0 and not c.mbuff:
            c2 = copy.copy(c)
            c2.mbuff = bytes(range(0x40, 0x50))
            runs.append((c2, 'mbuff'))
    ans = [parse_answer(x) for x in vlib.harness_run(binary, [c.line(engine='cl', kind=kind) for c, kind in runs])]
    terms, idx, outs = [], [], {}
    for i, ((c, kind), a) in enumerate(zip(runs, ans)):
        tag = a['raw'].split()[0].split(':')[0] + (':4' if a['raw'].startswith('SIGNAL:4') else '')
        outs[tag] = outs.get(tag, 0) + 1
        if a['status'] == 0 and 'L' in a:
            memb, mbuffb, _, _ = a['L']
            st, v = 0, a['val']
        elif a['raw'].startswith('SIGNAL:4'):
            memb, mbuffb, st, v = 0x600000200000, 0x600000600000, 1, 100      # ud2: the bounds check refused the access
        else:
            continue
        mb = c.mbuff if kind == 'mbuff' else b''
        terms.append('(check_cl %s %s %s %s %d %d %d %s %s)' % (
            zhex(c.prog), region(mbuffb, mb), region(memb, c.mem), '[%s]' % '; '.join('(%d, %d)' % (i2, HELPER_CODES[n]) for i2, n in reversed(c.helpers)),
            c.budget, st, v, zhex(a['mbuff'] if st == 0 and kind == 'mbuff' else mb if st else b''), zhex(a['mem'] if st == 0 else c.mem)))
        idx.append(i)
    bad, errors = vlib.coq_eval('C04cl', CL_HEADER, terms, '(fun c => c)', shard_size=120)
    if errors:
        raise vlib.Broken('Cranelift model evaluation failed: ' + errors[0])
    chk.cov['model_correspondence'] = {'what': 'ClRun.cl_run (vm_compute) = the compiled code, value and final packet / metadata bytes; a trap = ud2',
                                       'compared': len(terms), 'engine_outcomes': outs, 'disagreements': len(bad)}
    return [(runs[idx[i]], ans[idx[i]]) for i, _ in bad]


def run(chk, engine=ENGINE, prop='C03'):
    res = vlib.prove(chk, UNITS if prop == 'C03' else ['Opcodes', 'Codec', 'Verifier', 'Interp', 'ClAlu', 'ClJmp', 'ClMem', 'ClMisc', 'ClCfg', 'Clir'],
                     MODELS if prop == 'C03' else ['theories/ClirSem.vo', 'gen/ClAlu.vo', 'gen/ClJmp.vo', 'gen/ClMem.vo', 'gen/ClMisc.vo', 'gen/ClCfg.vo', 'theories/Verifier.vo'], prop,
                     PROOFS if prop == 'C03' else ['theories/ClAluProofs.v', 'theories/ClJmpProofs.v', 'theories/ClMemProofs.v', 'theories/ClMiscProofs.v', 'theories/ClCfgProofs.v', 'theories/ClStep.v', 'theories/ClRun.v', 'theories/IsaDef.v', 'theories/DefRun.v', 'theories/VerifierProofs.v', 'theories/InterpProofs.v'])
    found = False
    if res['model_ok']:
        binary = vlib.harness_build('debug')
        cases = CC.corpus(chk, prop)
        diffs, stats = CC.compare(binary, cases, engine)
        fams = {}
        for c in cases:
            fams[c.fam.split(':')[0]] = fams.get(c.fam.split(':')[0], 0) + 1
        known = dict(vlib.known_findings(prop))
        nlocal = 0
        if engine == 'jit':
            # programs with eBPF-to-eBPF calls (C07's call graphs): the frame-pointer defect is a listed finding
            import copy
            cg = [c for c in C07.gen_cases(chk) if c.calc is None]
            d2, s2 = CC.compare(binary, cg, engine, kinds=('raw',))
            nlocal = len(cg)
            stats.update({'localcalls:' + k: v for k, v in s2.items()})
            for (c, kind, l, a, b) in d2:
                if C07.jit_frame_alias(c) and 'D18-jit-frames-alias' in known:
                    chk.known('D18-jit-frames-alias')
                else:
                    diffs.append((c, kind, l, a, b))
        else:
            # a program containing a local call must be refused by Cranelift compilation, never compiled into something else
            from checks import C08
            cg = [c for c in C07.gen_cases(chk) if C08.has_local_call(c.prog)]
            ans = vlib.harness_run(binary, [c.line(engine='cl', kind='raw') for c in cg])
            nlocal = len(cg)
            for c, a in zip(cg, ans):
                if not a.startswith('ERR:compile'):
                    found = True
                    if len(chk.violations) < 10:
                        chk.violation({'kind': 'counterexample', 'request': c.line(engine='cl', kind='raw'), 'answer': a[:200], 'family': c.fam,
                                       'meaning': 'a program with an eBPF-to-eBPF call was not refused by Cranelift compilation'})
        cl_bad = []
        if engine == 'jit':
            try:
                from checks import C08 as _C08
                hc = [c for c in _C08.gen_cases(chk) if all(n != 'rsp' for _, n in c.helpers)]
                for (c, a) in jit_model_correspondence(chk, binary, list(cases) + hc * 3):
                    found = True
                    if len(chk.violations) < 10:
                        chk.violation({'kind': 'counterexample', 'request': c.line(engine='jit', kind='raw'), 'engine_answer': a['raw'][:200], 'family': c.fam,
                                       'vm_kind': 'raw', 'meaning': 'the JIT-compiled code does not do what the model of the emitted sequences (JitRun.jit_steps, '
                                       'which theorem C03_run_refines proves equal to the ISA) does on this input: tie B of the composition is broken'})
            except vlib.Broken as e:
                if res['proof_ok']:
                    raise
                chk.cov['model_correspondence'] = {'skipped': 'the composition model does not build on this tree: ' + str(e)[:200]}
        if engine == 'cl':
            try:
                cl_bad = cl_model_correspondence(chk, binary, cases)
            except vlib.Broken as e:
                if res['proof_ok']:
                    raise
                chk.cov['model_correspondence'] = {'skipped': 'the composition model does not build on this tree: ' + str(e)[:200]}
        if cl_bad:
            for ((c, kind), a) in cl_bad:
                found = True
                if len(chk.violations) < 10:
                    chk.violation({'kind': 'counterexample', 'request': c.line(engine='cl', kind=kind), 'engine_answer': a['raw'][:200], 'family': c.fam,
                                   'vm_kind': kind, 'meaning': 'the Cranelift-compiled code does not do what the model of the IR (ClRun.cl_run, which '
                                   'theorem C04_run_refines proves equal to the ISA) does on this input: tie B of the composition is broken'})
        for (c, kind, l, a, b) in diffs:
            found = True
            if len(chk.violations) < 10:
                chk.violation({'kind': 'counterexample', 'request': l if len(l) < 4000 else l[:200] + '...(long program, family %s)' % c.fam,
                               'interpreter_answer': a['raw'][:200], 'engine_answer': b['raw'][:200], 'family': c.fam, 'vm_kind': kind, 'engine': engine,
                               'meaning': 'compiled code returns a different value / leaves different bytes than the interpreter (= the ISA, theorem C01)'})
        chk.cov['evaluations'] = sum(stats.values()) + nlocal
        chk.cov['distinct_nontrivial'] = len({c.prog for c in cases})
        chk.cov['rule'] = ('every ALU opcode (32/64, imm/reg) x all 10 destination x 10 source registers x boundary immediates / operand values, byte swaps, lddw, '
                           'every conditional jump (64/32, imm/reg) x register pairs with operands on both sides of the boundary, every load / store / atomic add '
                           'width x base register (r1..r10) x displacement boundaries (-129..256), absolute / indirect loads, loops, back edges, dead code, '
                           'programs above 65535 instructions, random straight-line programs; all on the raw VM, every 3rd also on the mbuff / no-data / '
                           'fixed-metadata VMs; plus the call graphs of C07; only cases where the interpreter returns a value are compared')
        chk.cov['input_distribution'] = {'families': fams, 'runs': stats}
        chk.cov['samples'] = [{'request': cases[i].line(engine=engine, kind='raw')[:200]} for i in (0, len(cases) // 2)]
    vlib.report_broken(chk, res, found)
    chk.cov['trusted_base'] = ['Coq 8.16.1 kernel', 'no axioms', 'translator tools/rs2v',
                               'NOT modelled: the emitted machine code and its execution (x86-64 encodings, Cranelift code generation): compared with the '
                               'interpreter by execution only', 'harness/ (child process per run)']
    chk.assumptions = ['PARTIAL: see props/%s.v for exactly what is proved' % prop, 'the interpreter is the reference; its equality with the ISA is theorem C01 '
                       '(D7 forms excluded from the corpus)']
    chk.cov['explanation'] = ('logic theorems over regenerated compiler code + differential execution of the compiled code against the interpreter '
                              'on a corpus built to cover every opcode, register pair, encoding boundary and VM kind')
