"""C11 -- Cranelift-compiled code never touches memory outside the program's regions."""
import vlib
from checks import ebpf as B
from checks.interp_common import Case, parse_answer
from checks import C02

UNITS = ['Opcodes', 'Codec', 'Interp', 'Clir', 'ClMem', 'ClAlu', 'ClJmp', 'ClMisc']
MODELS = ['theories/ClirSem.vo', 'gen/Clir.vo']
PROOFS = ['theories/ClirProofs.v', 'theories/ClMemProofs.v', 'theories/ClStep.v']

HEADER = '''From Coq Require Import ZArith List Bool.
From RbpfV Require Import MachInt ClirSem.
From RbpfV.gen Require Import Clir.
Import ListNotations.
Open Scope Z_scope.
(* (mem ptr, mem len, mbuf ptr, mbuf len, size, effective base, offset, trapped?) ; code 1: IR model <> compiled code *)
Definition check11 (c : Z * Z * Z * Z * Z * Z * Z * bool) : Z :=
  let '(p0, p1, p2, p3, size, base, off, trapped) := c in
  let V := gen_prelude_vars p0 p1 p2 p3 (2 ^ 46) 512 in
  if Bool.eqb (gen_bounds_check V size base off) (negb trapped) then 0 else 1.
'''


def gen_cases(chk):
    """-> list of (Case, known effective (base, offset) or None, size)"""
    rng = vlib.Rng(chk.seed).fork('C11')
    thorough = chk.tier == 'thorough'
    out = []
    pk = bytes(range(0x10, 0x10 + 32))
    mb = bytes(range(0x60, 0x60 + 16))
    layouts = [(pk, mb), (pk, b''), (b'', mb), (b'', b''), (bytes(range(7)), bytes(range(9)))]
    deltas = list(range(-9, 10))
    for li, (mem, mbuff) in enumerate(layouts):
        for sz in ('b', 'h', 'w', 'dw'):
            n = B.SIZE_BYTES[sz]
            for name, body in C02.access_programs(sz):
                targets = []
                if mbuff:
                    targets += [('mbuff', d) for d in deltas] + [('mbuff', len(mbuff) + d) for d in deltas]
                if mem:
                    targets += [('mem', d) for d in deltas] + [('mem', len(mem) + d) for d in deltas]
                targets += [('stack', -512 + d) for d in deltas] + [('stack', d) for d in deltas]
                for reg, d in targets:
                    if not thorough and li > 1 and rng.chance(1, 2) and abs(d) not in (0, 1, 8):
                        continue
                    # mem pointer: r1 when there is no metadata buffer, else loaded from the known arena address
                    if reg == 'stack':
                        pre = B.movr(6, 10) + B.alu('add', 6, imm=d)
                    else:
                        pre = B.lddw(6, 0) + B.alu('add', 6, imm=d)     # lddw patched with the region's address below
                    out.append((Case(pre + body, mem=mem, mbuff=mbuff, fam='%s:%s:%s' % (name, sz, reg)), reg, d, n))
            # offsets carried by the instruction instead of the register, for every access kind: the check must be made at
            # base + offset (once), also when base alone / base + 2*offset would be inside or outside
            for reg in (['mem'] if mem else []) + (['mbuff'] if mbuff else []):
                ln = len(mem) if reg == 'mem' else len(mbuff)
                for off in (-32768, -16, -8, -1, 1, 8, 12, 16, ln - n, ln - n + 1, 32767):
                    for shift in (0, -off):              # register = region start, or such that the effective address is the region start
                        if abs(shift) > 2 ** 31 - 1:
                            continue
                        bodies = [('ldx', B.ldx(sz, 0, 6, off) + B.EXIT),
                                  ('st', B.st(sz, 6, off, 0x5a5a5a5a) + B.mov(0, 0) + B.EXIT),
                                  ('stx', B.load_const(3, 0x1122334455667788) + B.stx(sz, 6, 3, off) + B.mov(0, 0) + B.EXIT)]
                        if sz in ('w', 'dw'):
                            bodies.append(('xadd', B.load_const(3, 0x0101010101010101) + B.xadd(sz, 6, 3, off) + B.mov(0, 0) + B.EXIT))
                        for name, body in bodies:
                            out.append((Case(B.lddw(6, 0) + B.alu('add', 6, imm=shift) + body, mem=mem, mbuff=mbuff,
                                             fam='%s-off:%s:%s' % (name, sz, reg)), reg, (shift, off), n))
            for off in (-512, -264, -256, -8, -n):
                bodies = [('st', B.st(sz, 10, off, 0x5a5a5a5a) + B.mov(0, 0) + B.EXIT)]
                if sz in ('w', 'dw'):
                    bodies.append(('xadd', B.load_const(3, 0x0101010101010101) + B.xadd(sz, 10, 3, off) + B.mov(0, 0) + B.EXIT))
                for name, body in bodies:
                    out.append((Case(body, mem=mem, mbuff=mbuff, fam='%s-off:%s:stack' % (name, sz)), 'stack', off, n))
        for sz in ('b', 'h', 'w', 'dw'):
            for d in list(range(0, 10)) + [len(mem) + x for x in range(-9, 3)] + [0x7fffffff, -1]:
                out.append((Case(B.ldabs(sz, d) + B.EXIT, mem=mem, mbuff=mbuff, fam='ldabs:' + sz), None, None, B.SIZE_BYTES[sz]))
                out.append((Case(B.mov(4, 3) + B.ldind(sz, 4, d - 3) + B.EXIT, mem=mem, mbuff=mbuff, fam='ldind:' + sz), None, None, B.SIZE_BYTES[sz]))
    for sz in ('b', 'h', 'w', 'dw'):
        for name, body in C02.access_programs(sz):
            for a in (0, 1, 7, 8, 2 ** 64 - 1, 2 ** 64 - 8, 2 ** 64 - 9, 2 ** 63, 2 ** 32):
                out.append((Case(B.lddw(6, a) + body, mem=pk, mbuff=mb, fam='%s:%s:abs' % (name, sz)), 'abs', a, B.SIZE_BYTES[sz]))
    return out


MEM_BASE_OF = {}


def run(chk):
    res = vlib.prove(chk, UNITS, MODELS, 'C11', PROOFS)
    found = False
    if res['model_ok']:
        binary = vlib.harness_build('debug')
        raw = gen_cases(chk)
        # learn the arena addresses for each (len mem, len mbuff) layout from a probe run, then patch the lddw placeholders
        probes = {}
        for c, reg, d, n in raw:
            probes[(len(c.mem), len(c.mbuff))] = Case(B.mov(0, 0) + B.EXIT, mem=c.mem, mbuff=c.mbuff)
        keys = sorted(probes)
        pa = [parse_answer(x) for x in vlib.harness_run(binary, [probes[k].line(engine='interp', kind='mbuff') for k in keys])]
        layout = {k: a['L'] for k, a in zip(keys, pa)}
        cases = []
        for c, reg, d, n in raw:
            L = layout[(len(c.mem), len(c.mbuff))]
            if reg in ('mem', 'mbuff'):
                base = L[0] if reg == 'mem' else L[1]
                c.prog = B.lddw(6, base) + c.prog[16:]
            cases.append((c, reg, d, n, L))
        li = vlib.harness_run(binary, [c.line(engine='interp', kind='mbuff') for c, *_ in cases])
        lc = vlib.harness_run(binary, [c.line(engine='cl', kind='mbuff') for c, *_ in cases])
        terms, tidx = [], []
        outs = {}
        fams = {}
        nchecked = 0
        for i, ((c, reg, d, n, L), xi, xc) in enumerate(zip(cases, li, lc)):
            ai, ac = parse_answer(xi), parse_answer(xc)
            fams[c.fam.split(':')[0]] = fams.get(c.fam.split(':')[0], 0) + 1
            k = xc.split()[0] if not xc.startswith('OK') else 'OK'
            outs[k] = outs.get(k, 0) + 1
            trapped = xc.startswith('SIGNAL:4')
            bad = None
            if xc.startswith('SIGNAL') and not trapped:
                bad = 'compiled code died with %s: an access outside the regions was made (no bounds trap)' % xc.split()[0]
            elif xc.startswith(('PANIC', 'TIMEOUT')):
                bad = 'compiled code did not return: %s' % xc.split()[0]
            elif ai['status'] == 0:
                nchecked += 1
                # a load from a stack byte the program never wrote returns an unspecified value: only "performed" is required
                same_val = True if (reg == 'stack' and c.fam.startswith('ldx')) else ac.get('val') == ai['val']
                if not (ac['status'] == 0 and same_val and ac['mem'] == ai['mem'] and ac['mbuff'] == ai['mbuff']):
                    bad = 'an access entirely inside a region was not performed as by the interpreter'
            elif ai['status'] == 1 and ai.get('kind') in ('oob_load', 'oob_store'):
                nchecked += 1
                if not trapped:
                    bad = 'an access not entirely inside a region did not trap'
            elif ai['status'] == 1 and ai.get('kind') == 'unaligned':
                nchecked += 1
                if trapped or ac['status'] != 0:
                    bad = 'an atomic add entirely inside a region was not performed'
            if bad:
                found = True
                if len(chk.violations) < 10:
                    chk.violation({'kind': 'counterexample', 'request': c.line(engine='cl', kind='mbuff'), 'interpreter_answer': xi[:200],
                                   'cranelift_answer': xc[:200], 'family': c.fam, 'meaning': bad})
            # tie of the IR model to the compiled code where the effective address is known
            if reg in ('mem', 'mbuff', 'abs') and not xc.startswith(('PANIC', 'TIMEOUT')):
                if reg == 'abs':
                    base, off = d, 0
                else:
                    rb = L[0] if reg == 'mem' else L[1]
                    base, off = (rb + d[0], d[1]) if isinstance(d, tuple) else (rb + d, 0)
                terms.append('(%d, %d, %d, %d, %d, %d, %s, %s)' % (L[0], len(c.mem), L[1], len(c.mbuff), n, base % 2 ** 64,
                                                                   '(%d)' % off if off < 0 else off, 'true' if trapped else 'false'))
                tidx.append(i)
        bad_m, errors = vlib.coq_eval('C11', HEADER, terms, 'check11', shard_size=400)
        if errors:
            raise vlib.Broken('model evaluation failed: ' + errors[0])
        for j, cd in bad_m[:5]:
            found = True
            i = tidx[j]
            chk.violation({'kind': 'counterexample', 'request': cases[i][0].line(engine='cl', kind='mbuff'), 'cranelift_answer': lc[i][:200],
                           'model_case': terms[j], 'meaning': 'the regenerated IR bounds check decides differently from the compiled code (tie B broken)'},
                          no_input=True)
        chk.cov['evaluations'] = len(cases)
        chk.cov['distinct_nontrivial'] = nchecked
        chk.cov['model_tied_cases'] = len(terms)
        chk.cov['rule'] = ('every access instruction (ldx, st, stx, xadd) x widths x effective addresses within 9 bytes of both ends of the packet, the '
                           'metadata buffer and the stack, offsets carried by the instruction (-32768 .. 32767), absolute / indirect packet loads, null, '
                           'wrap-around and top-of-address-space addresses x 5 region layouts (empty / absent packet or buffer); buffers sit against '
                           'PROT_NONE guard pages, the compiled code runs in a child process; expectation = the interpreter\'s decision (C02 theorem)')
        chk.cov['input_distribution'] = {'families': fams, 'cranelift_outcomes': outs}
        chk.cov['samples'] = [{'request': cases[i][0].line(engine='cl', kind='mbuff')[:200], 'interp': li[i][:60], 'cranelift': lc[i][:60]} for i in (0, len(cases) // 2)]
    vlib.report_broken(chk, res, found)
    chk.cov['trusted_base'] = ['Coq 8.16.1 kernel + vm_compute', 'no axioms', 'translator tools/rs2v (unit Clir: insert_bounds_check, prelude variables, access helpers)',
                               'theories/ClirSem.v: value semantics of iconst/iadd/icmp/band/bor/trapz (Cranelift IR as documented)',
                               'Cranelift code generation (IR -> x86) and the OS trap delivery: exercised by the differential run, not verified', 'harness/']
    chk.assumptions = ['the theorem is about the IR the crate builds; that machine code implements the IR is covered by execution against guard pages only',
                       'packet / buffer slices do not wrap the address space']
    chk.cov['explanation'] = ('theorem C11_bounds_check: the regenerated check passes iff the access lies entirely in stack / packet / buffer; C11_regions: '
                              'the region variables are the slices passed; C11_check_precedes_access; compiled code compared with the interpreter decision '
                              'and with the IR model on the address grid')
