"""C12 -- compiling any verified program returns Ok or Err and never panics or overruns."""
import vlib
from checks import ebpf as B
from checks import C05, C01

UNITS = ['Opcodes', 'Codec', 'Verifier', 'JitLogic', 'ClCfg', 'JitMem']
MODELS = ['theories/Verifier.vo', 'gen/JitLogic.vo', 'gen/ClCfg.vo', 'gen/JitMem.vo']
PROOFS = ['theories/JitLogicProofs.v', 'theories/VerifierProofs.v', 'theories/ClCfgProofs.v', 'theories/JitMemProofs.v']


def gen_progs(chk):
    rng = vlib.Rng(chk.seed).fork('C12')
    thorough = chk.tier == 'thorough'
    progs = []
    for _ in range(6000 if thorough else 1200):
        p = C05.accepted_program(rng, 1 + rng.below(40))
        if p is not None:
            progs.append((p, 'random-accepted'))
    # every supported opcode as the only body instruction, with extreme operands
    for o in C05.SUPPORTED:
        for (d, s, off, imm) in ((0, 0, 0, 0), (9, 10, 32767, 2 ** 31 - 1), (1, 9, -32768, -2 ** 31), (6, 3, 8, -1)):
            cls = o & 7
            if o in (0x95,):
                continue
            if o == 0x18:
                progs.append((B.insn(o, d, 0, 0, imm) + B.insn(0, 0, 0, 0, imm) + B.EXIT, 'opcode'))
                continue
            if o in (0xd4, 0xdc):
                imm = 32
            if o in (0xc3, 0xdb):
                imm = 0
            if o == 0x85:
                progs.append((B.insn(o, 0, 0, 0, 1) + B.EXIT, 'opcode'))
                progs.append((B.insn(o, 0, 1, 0, 0) + B.EXIT, 'opcode'))
                progs.append((B.insn(o, 0, 0, 0, 77) + B.EXIT, 'opcode'))      # helper not registered
                continue
            if o == 0x05 or (cls in (5, 6)):
                off = 0
            if cls in (2, 3) and d > 9:
                d = 10
            progs.append((B.insn(o, d, s, off, imm) + B.EXIT, 'opcode'))
    # the second slot of a wide load only has to carry opcode 0: its other fields (register byte, offset) are free and must not
    # matter to either compiler
    for rb2 in (0x0b, 0xb0, 0xff, 0x1a, 0xa1, 0x0a):
        for off2 in (0, -1, 0x7fff):
            for d in (0, 9):
                progs.append((B.insn(0x18, d, 0, 0, 5) + B.insn(0, rb2 & 15, rb2 >> 4, off2, 7) + B.EXIT, 'lddw-second-slot'))
                progs.append((B.mov(0, 1) + B.jmp('jeq', 0, 2, imm=1) + B.insn(0x18, d, 0, 0, -1) + B.insn(0, rb2 & 15, rb2 >> 4, off2, -1) + B.EXIT, 'lddw-second-slot'))
    # code density: runs of one instruction form (the size of the emitted code per eBPF instruction varies from 1 to ~45 bytes;
    # any size estimate must hold for the worst form), at lengths around powers of two
    for o in C05.SUPPORTED:
        cls = o & 7
        if o == 0x95:
            continue
        for n in (127, 128, 509) if not thorough else (63, 64, 127, 128, 129, 255, 509, 1021, 4093):
            for (d, s) in ((7, 8), (0, 1)):
                if o == 0x18:
                    one = B.insn(o, d, 0, 0, -1) + B.insn(0, 0, 0, 0, -1)
                    body = one * (n // 2)
                elif o == 0x85:
                    body = (B.insn(o, 0, 1, 0, 0) if d == 7 else B.insn(o, 0, 0, 0, 1)) * n
                elif o in (0xd4, 0xdc):
                    body = B.insn(o, d, 0, 0, 64) * n
                elif o in (0xc3, 0xdb):
                    body = B.insn(o, d if d <= 9 else 9, s, 8, 0) * n
                elif o == 0x05 or cls in (5, 6):
                    body = B.insn(o, d, s, 0, 5) * n
                else:
                    body = B.insn(o, d, s, -8, 0x7fffffff) * n
                progs.append((body + B.EXIT, 'dense'))
    # last-instruction kinds, dead code, back edges
    progs += [(B.EXIT, 'shape'), (B.ja(1) + B.EXIT + B.ja(-2), 'shape'), (B.mov(0, 1) + B.EXIT + B.mov(0, 2) + B.EXIT, 'shape'),
              (B.mov(0, 0) + B.alu('add', 0, imm=1) + B.jmp('jlt', 0, -2, imm=10) + B.EXIT, 'shape'),
              (B.EXIT + B.EXIT + B.ja(-3), 'shape'),
              (B.callx(1) + B.EXIT + B.callx(1) + B.EXIT + B.EXIT, 'shape'),
              (B.callx(2) + B.EXIT + B.EXIT + B.callx(-2) + B.EXIT, 'shape')]
    # sizes: many instructions, far jumps, many jumps to the same target, long run of wide loads
    for n in ((1000, 33000, 70000, 250000) if thorough else (1000, 33000, 70000)):
        progs.append((B.mov(0, 1) * n + B.EXIT, 'size'))
        progs.append((B.ja(n) + B.alu('div', 1, src=2) * n + B.EXIT, 'size'))
        progs.append((b''.join(B.jmp('jeq', 1, n - k - 1, src=2) for k in range(min(n, 3000))) + B.mov(0, 0) * (n - min(n, 3000)) + B.EXIT, 'size'))
    progs.append((B.lddw(1, 0x1122334455667788) * 5000 + B.EXIT, 'size'))
    if thorough:
        progs.append((B.mov(0, 1) * 999999 + B.EXIT, 'size'))
    return progs


def page_fit_cases(chk):
    """programs whose x86-64 image has every length in a window below each page boundary (6- and 7-byte instructions: 6n + 7m
    reaches every length), so that for each VM kind -- their prologues differ in length -- one of them fills its pages exactly"""
    from checks.interp_common import Case
    out = []
    pages = (4096, 8192, 12288, 16384) if chk.tier == 'thorough' else (4096, 8192)
    for page in pages:
        for L in range(page - 140, page - 30):
            m = L % 6
            n = (L - 7 * m) // 6
            p = B.alu('mov', 8, imm=1, w=32) * m + B.alu('mov', 0, imm=1, w=32) * n + B.EXIT
            out.append(Case(p, mem=bytes(16), fam='page-fit:%d' % page))
    return out


HELPER_SETS = ['', '1:mix', '1:mix,2:clobber,3:rsp,2147483647:mix,4294967295:mix']


def run(chk):
    res = vlib.prove(chk, UNITS, MODELS, 'C12', PROOFS)
    found = False
    if res['model_ok']:
        binary = vlib.harness_build('debug')
        progs = gen_progs(chk)
        lines, meta = [], []
        for i, (p, f) in enumerate(progs):
            hs = HELPER_SETS[i % len(HELPER_SETS)]
            for eng in ('jit', 'cl'):
                lines.append('compile engine=%s prog=%s%s timeout=120' % (eng, p.hex(), (' helpers=' + hs) if hs else ''))
                meta.append((i, eng, hs))
        # helpers whose code is near the code buffer of one pass and far from that of the other (a helper below 2 GiB, as in a
        # non-PIE executable; the sizing pass has no buffer yet): whatever a compiler derives from the distance to the helper
        # must give the same length in the pass that counts and in the pass that writes -- many call sites, so that a
        # difference of a few bytes per call crosses a page
        call_low = B.mov(1, 5) + B.insn(0x85, 0, 0, 0, 1)
        for n in ((60, 230, 460, 1000, 2500, 9000) if chk.tier == 'thorough' else (60, 230, 1000, 2500)):
            progs.append((call_low * n + B.EXIT, 'near-helper'))
            for eng in ('jit', 'cl'):
                lines.append('compile engine=%s prog=%s helpers=1:low,2:mix timeout=120' % (eng, progs[-1][0].hex()))
                meta.append((len(progs) - 1, eng, '1:low,2:mix'))
        answers = vlib.harness_run(binary, lines)
        outs, fams = {}, {}
        for (i, eng, hs), a in zip(meta, answers):
            fams[progs[i][1]] = fams.get(progs[i][1], 0) + 1
            k = '%s:%s' % (eng, a if a in ('OK OK', 'ERR ERR', 'VERIFIER VERIFIER') else a.split()[0])
            outs[k] = outs.get(k, 0) + 1
            if a in ('OK OK', 'ERR ERR'):
                continue
            if a == 'VERIFIER VERIFIER':
                continue      # the generator produced a program the verifier rejects: outside the property
            found = True
            if len(chk.violations) < 10:
                p = progs[i][0]
                chk.violation({'kind': 'counterexample', 'request': lines[len(chk.violations)][:80] + '...' if len(p) > 4000 else 'compile engine=%s prog=%s helpers=%s' % (eng, p.hex(), hs),
                               'program_len_insns': len(p) // 8, 'family': progs[i][1], 'engine': eng, 'answer': a[:300],
                               'meaning': ('compilation panicked / crashed / did not return' if a.startswith(('PANIC', 'SIGNAL', 'TIMEOUT')) else
                                           'compiling the same program twice gave different outcomes')})
        # images that fill their pages exactly: compile and run on every VM kind
        pf = page_fit_cases(chk)
        for kind in ('raw', 'mbuff', 'nodata', 'fixed'):
            sel = [c for c in pf]
            if kind == 'nodata':
                import copy
                sel = []
                for c in pf:
                    c2 = copy.copy(c)
                    c2.mem = b''
                    sel.append(c2)
            pl = [c.line(engine='jit', kind=kind) + (' d=0 e=8 reps=1' if kind == 'fixed' else '') for c in sel]
            pa = vlib.harness_run(binary, pl)
            for l, a in zip(pl, pa):
                k = 'page-fit:%s:%s' % (kind, a.split()[0].split(':')[0])
                outs[k] = outs.get(k, 0) + 1
                fams['page-fit'] = fams.get('page-fit', 0) + 1
                if not a.startswith('OK:1 '):
                    found = True
                    if len(chk.violations) < 10:
                        chk.violation({'kind': 'counterexample', 'request': l if len(l) < 60000 else l[:300] + '...', 'answer': a[:300], 'family': 'page-fit', 'vm_kind': kind,
                                       'engine': 'jit', 'program_len_insns': (len(l.split('prog=')[1].split()[0]) // 16),
                                       'meaning': 'a program whose machine code fills its pages exactly was not compiled and run to its value'})
            lines += pl
            answers = list(answers) + list(pa)
        chk.cov['evaluations'] = len(lines)
        chk.cov['distinct_nontrivial'] = len({(p, e) for (p, _), e in ((progs[i], eng) for (i, eng, hs) in meta)})
        chk.cov['rule'] = ('verifier-accepted programs: random well-formed instruction streams (1..40 slots, jumps / wide loads / helper and local calls, '
                           'dead code, back edges), every supported opcode with extreme operands, last-instruction kinds, 1000 .. 70000 instructions '
                           '(250000 and 999999 in the thorough tier), far jumps, thousands of jumps; programs whose x86-64 image has every length in a window below each page boundary (run on the four VM kinds); x 3 helper sets x {x86-64 JIT, Cranelift}; each compiled '
                           'twice in a child process: outcome must be OK or ERR both times')
        chk.cov['input_distribution'] = {'families': fams, 'outcomes': outs}
        chk.cov['samples'] = [{'request': lines[i][:160], 'answer': answers[i]} for i in (0, len(lines) // 2, len(lines) - 1)]
    vlib.report_broken(chk, res, found)
    chk.cov['trusted_base'] = ['Coq 8.16.1 kernel', 'no axioms', 'translator tools/rs2v (units JitLogic, Verifier, Codec, Opcodes)',
                               'not modelled: byte emission and sizing of the JIT, all of Cranelift (exercised by compilation in a child process)', 'harness/']
    chk.assumptions = ['PARTIAL: the theorem covers the jump-target bookkeeping and the register map only; panics / overruns elsewhere in the compilers are searched '
                       'for by compiling the corpora, not excluded by proof']
    chk.cov['explanation'] = ('theorems C12_jit_jump_targets / C12_jit_call_targets (accepted program => recorded targets are instruction starts and index '
                              'pc_locs in range) and C12_register_map; compile-twice corpus under both compilers')
