"""C14 -- the assembler is total: any text yields Ok or Err, never a panic."""
import vlib
from checks import asm_common as A

UNITS = ['Opcodes', 'Codec', 'Asm']
MODELS = ['theories/Cases.vo', 'theories/AsmModel.vo']
PROOFS = ['theories/AsmProofs.v']


def gen_texts(chk):
    rng = vlib.Rng(chk.seed).fork('C14')
    thorough = chk.tier == 'thorough'
    sp = A.Speller(rng, 1)
    texts = [('', 'empty'), (' \n\t', 'empty')]
    for _ in range(2500 if thorough else 500):
        t, _ = A.gen_program(rng, sp, 1 + rng.below(4), in_range=rng.chance(1, 2))
        texts.append((t, 'wellformed'))
    for _ in range(12000 if thorough else 2500):
        texts.append((A.malformed(rng, sp), 'malformed'))
    # names of every length with a multi-byte letter at every byte offset (error messages, tables and slices indexed by bytes)
    for ch in ('\u00e9', '\u4e2d', '\U0001d4b3', '\u0663'):
        for pos in range(0, 40):
            name = 'a' * pos + ch + 'b' * rng.below(30)
            texts.append((name + rng.choice([' r1, 2\nexit', '', ' r1', '\n', ' [r1+' + ch + '], 1']), 'long-names'))
            texts.append(('mov' * (pos // 3) + 'm'[:pos % 3] + ch + 'x r1, 2\nexit', 'long-names'))
    # long inputs: bounded time (described to Coq as repetitions, not spelled out)
    def rep(prefix, unit, n, suffix=''):
        texts.append((prefix + unit * n + suffix, 'long', '(%s ++ rep %d %s ++ %s)%%list' % (A.codepoints(prefix), n, A.codepoints(unit), A.codepoints(suffix))))
    rep('', 'mov r1, 0x1f\n', 100)
    rep('mov r1, ', '9', 5000)
    rep('mov r1, 0x', 'f', 5000)
    rep('mov r1, 0x', '0', 5000, '1')
    rep('', 'r', 4000)
    rep('', ',', 4000)
    rep('mov r1', ', 1', 2000)
    rep('exit', ' \n', 4000, 'exit')
    return texts


def run(chk):
    res = vlib.prove(chk, UNITS, MODELS, 'C14', PROOFS)
    found = False
    if res['model_ok']:
        binary = vlib.harness_build('debug')
        tx = gen_texts(chk)
        texts = [x[0] for x in tx]
        src_terms = {i: x[2] for i, x in enumerate(tx) if len(x) > 2}
        answers, bad, header = A.model_compare('C14', binary, texts, src_terms=src_terms)
        fams, outs = {}, {}
        for x, a in zip(tx, answers):
            f = x[1]
            fams[f] = fams.get(f, 0) + 1
            outs[a.split()[0]] = outs.get(a.split()[0], 0) + 1
        chk.cov['evaluations'] = len(texts)
        chk.cov['distinct_nontrivial'] = len(set(texts))
        chk.cov['rule'] = ('well-formed programs in varied spellings (in and out of range operands) and a malformed stream: oversized decimal / '
                           'hexadecimal literals in every operand position, huge register numbers, most negative integers, sign without digits, '
                           'truncated operands, wrong operand shapes, unknown mnemonics, glued instructions, Unicode letters / digits / spaces, '
                           'character-level mutations, and inputs of several thousand characters; distinct = distinct strings')
        chk.cov['input_distribution'] = {'families': fams, 'implementation_outcomes': outs}
        chk.cov['samples'] = [{'request': repr(texts[i])[:200], 'implementation': answers[i][:100]} for i in (2, 700, len(texts) - 7)]
        for i, cd in bad[:10]:
            found = True
            crashed = cd == 4
            chk.violation({'kind': 'counterexample', 'request': 'asm ' + texts[i].encode('utf-8').hex(), 'text': texts[i][:500],
                           'implementation_answer': answers[i][:300],
                           'model': '' if crashed else vlib.coq_show('C14', header, 'assemble U0 %s' % A.codepoints(texts[i]))[:300],
                           'engine': 'assembler', 'profile': 'debug',
                           'meaning': ('assemble panicked / crashed / did not return' if crashed or answers[i].startswith('PANIC') else
                                       'model differs from implementation (tie B broken)')},
                          no_input=not (crashed or answers[i].startswith('PANIC')))
    vlib.report_broken(chk, res, found)
    chk.cov['trusted_base'] = ['Coq 8.16.1 kernel + vm_compute', 'no axioms',
                               'translator tools/rs2v (units Asm, Codec, Opcodes)',
                               'theories/AsmParser.v: hand model of asm_parser.rs and of the combine 4.6 combinators it uses (tie B: this correspondence)',
                               'theories/AsmModel.v: glue loop of assemble_internal / assemble', 'Unicode classes of non-ASCII characters: parameter of the theorem; '
                               'the correspondence takes them from the implementation\'s std (harness cls)', 'harness/']
    chk.assumptions = ['input is a valid Rust &str (sequence of Unicode scalar values)', 'memory exhaustion on gigantic inputs is outside the model']
    chk.cov['explanation'] = ('theorem C14_assemble_total: for every string the assembler model returns Ok or Err (no panic, no fuel exhaustion); '
                              'the parser part of the model is hand-written and tied by the correspondence on well-formed and malformed text')
