"""C17 -- instruction encoding and decoding are inverse, and all encoders agree."""
import vlib
from vlib import zhex

HEADER = '''From Coq Require Import ZArith List Bool.
From RbpfV Require Import MachInt Ebpf Cases BuilderSpec.
From RbpfV.gen Require Import Codec Builder.
Import ListNotations.
Open Scope Z_scope.

Inductive tcase :=
| TEnc (i : insn) (arr vec : outcome (list Z))
| TDec (prog : list Z) (idx : Z) (o : outcome insn)
| TBld (k : bctor) (d s f m : Z) (o : outcome (list Z)).

Definition code (model_ok spec_ok : bool) : Z :=
  (if model_ok then 0 else 1) + (if spec_ok then 0 else 2).

(* specified decoding: the slot at idx when it is inside the program, a panic otherwise *)
Definition spec_get (prog : list Z) (idx : Z) : res insn :=
  if 8 * (idx + 1) <=? len prog
  then Ok (spec_decode_slot (firstn 8 (skipn (Z.to_nat (8 * idx)) prog))) else Panic 0.

Definition check (c : tcase) : Z :=
  match c with
  | TEnc i arr vec =>
      code (res_matches list_eqb (gen_to_array i) arr && res_matches list_eqb (gen_to_vec i) vec)
           (res_matches list_eqb (Ok (spec_encode i)) arr && res_matches list_eqb (Ok (spec_encode i)) vec)
  | TDec prog idx o =>
      code (res_matches insn_eqb (gen_get_insn prog idx) o) (res_matches insn_eqb (spec_get prog idx) o)
  | TBld k d s f m o =>
      let i := {| opc := bctor_opc k; dst := d; src := s; off := f; imm := m |} in
      code (res_matches list_eqb (gen_builder_into_bytes i) o)
           (res_matches list_eqb (Ok (spec_encode i)) o)
  end.
'''

OFFS = [-32768, -32767, -256, -255, -129, -128, -1, 0, 1, 127, 128, 255, 256, 0x1234, 32766, 32767]
IMMS = [-2 ** 31, -2 ** 31 + 1, -0x10000, -0xffff, -256, -1, 0, 1, 255, 256, 0xff00, 0xffff, 0x10000, 0xff0000,
        0x12345678, 0x7f000000, 2 ** 31 - 1]


def zl(v):
    return '(%d)' % v if v < 0 else str(v)


def out_bytes(s):
    if s.startswith('PANIC'):
        return 'OPanic'
    return '(OOk %s)' % zhex(bytes.fromhex(s)) if s != '-' else '(OOk [])'


def builder_ctors():
    out = []
    alu = ['add', 'sub', 'mul', 'div', 'or', 'and', 'lsh', 'rsh', 'neg', 'mod', 'xor', 'mov', 'arsh']
    coq = ['BAdd', 'BSub', 'BMul', 'BDiv', 'BOr', 'BAnd', 'BLsh', 'BRsh', 'BNeg', 'BMod', 'BXor', 'BMov', 'BArsh']
    for a, c in zip(alu, coq):
        for reg in (False, True):
            if a == 'neg' and reg:
                continue
            for x64 in (False, True):
                out.append(('mov %s %s %s' % (a, 'reg' if reg else 'imm', 'x64' if x64 else 'x32'),
                            '(KMov %s %s %s)' % (c, str(reg).lower(), str(x64).lower())))
    out.append(('swap le', '(KSwap false)'))
    out.append(('swap be', '(KSwap true)'))
    for sz, c in (('b', 'SzB'), ('h', 'SzH'), ('w', 'SzW'), ('dw', 'SzDW')):
        out.append(('load imm %s' % sz, '(KLoadImm %s)' % c))
        out.append(('load abs %s' % sz, '(KLoadAbs %s)' % c))
        out.append(('load ind %s' % sz, '(KLoadInd %s)' % c))
        out.append(('load x %s' % sz, '(KLoadX %s)' % c))
        out.append(('store imm %s' % sz, '(KStore %s)' % c))
        out.append(('store x %s' % sz, '(KStoreX %s)' % c))
    conds = ['ja', 'jeq', 'jgt', 'jge', 'jlt', 'jle', 'jset', 'jne', 'jsgt', 'jsge', 'jslt', 'jsle']
    ccoq = ['CJa', 'CJeq', 'CJgt', 'CJge', 'CJlt', 'CJle', 'CJset', 'CJne', 'CJsgt', 'CJsge', 'CJslt', 'CJsle']
    for a, c in zip(conds, ccoq):
        for reg in (False, True):
            out.append(('jump %s %s' % (a, 'reg' if reg else 'imm'), '(KJump %s %s)' % (c, str(reg).lower())))
    out.append(('jump ja uncond', '(KJump CJa false)'))
    out.append(('call', 'KCall'))
    out.append(('exit', 'KExit'))
    return out


def gen_cases(chk):
    rng = vlib.Rng(chk.seed).fork('C17')
    thorough = chk.tier == 'thorough'
    reqs = []   # (harness line, builder of the Coq term from the answer, description)
    # --- encoders: every opcode byte x register nibbles sample, boundary offsets and immediates
    n_rand = 6000 if thorough else 1200
    fields = []
    for opc in range(256):
        fields.append((opc, rng.below(16), rng.below(16), rng.choice(OFFS), rng.choice(IMMS)))
    for d in range(16):
        for s in range(16):
            fields.append((rng.below(256), d, s, rng.choice(OFFS), rng.choice(IMMS)))
    for f in OFFS:
        for m in IMMS:
            fields.append((rng.below(256), rng.below(16), rng.below(16), f, m))
    for _ in range(n_rand):
        fields.append((rng.below(256), rng.below(16), rng.below(16),
                       rng.below(65536) - 32768, rng.below(2 ** 32) - 2 ** 31))
    for (o, d, s, f, m) in fields:
        line = 'enc %d %d %d %d %d' % (o, d, s, f, m)

        def mk(ans, o=o, d=d, s=s, f=f, m=m):
            if ans.startswith('PANIC'):
                a = v = 'OPanic'
            else:
                _, a, v = ans.split()
                a, v = out_bytes(a), out_bytes(v)
            return '(TEnc {| opc := %d; dst := %d; src := %d; off := %s; imm := %s |} %s %s)' % (o, d, s, zl(f), zl(m), a, v)
        reqs.append((line, mk, 'enc'))
    # --- decoder: slots at indices 0..3 of programs of 0..4 slots (+ ragged lengths), incl. out of range
    n_dec = 8000 if thorough else 1500
    for k in range(n_dec):
        nslots = rng.below(5)
        ragged = rng.below(8) if rng.chance(1, 4) else 0
        ln = max(0, nslots * 8 - ragged) if rng.chance(1, 2) else nslots * 8 + ragged
        prog = bytes(rng.below(256) for _ in range(ln))
        if rng.chance(1, 3) and ln >= 8:   # boundary bytes
            prog = bytes(rng.choice([0, 1, 0x7f, 0x80, 0xff, 0x0f, 0xf0]) for _ in range(ln))
        idx = rng.below(6)
        if rng.chance(1, 50):
            idx = rng.choice([2 ** 61 - 1, 2 ** 61, 2 ** 64 - 1, 2 ** 63])
        line = 'dec %d %s' % (idx, prog.hex() if prog else '-')

        def mk(ans, prog=prog, idx=idx):
            if ans.startswith('PANIC'):
                o = 'OPanic'
            else:
                t = ans.split()
                o = '(OOk {| opc := %s; dst := %s; src := %s; off := %s; imm := %s |})' % tuple(zl(int(x)) for x in t[1:6])
            return '(TDec %s %d %s)' % (zhex(prog), idx, o)
        reqs.append((line, mk, 'dec'))
    # --- builder: every constructor x field grid
    for (ctor, coq) in builder_ctors():
        grid = [(0, 0, 0, 0), (15, 15, -1, -1), (9, 10, -32768, -2 ** 31), (1, 2, 32767, 2 ** 31 - 1)]
        for _ in range(24 if thorough else 6):
            grid.append((rng.below(16), rng.below(16), rng.choice(OFFS), rng.choice(IMMS)))
        for (d, s, f, m) in grid:
            line = 'bld %s %d %d %d %d' % (ctor, d, s, f, m)

            def mk(ans, coq=coq, d=d, s=s, f=f, m=m):
                if ans.startswith('PANIC'):
                    o = 'OPanic'
                else:
                    o = out_bytes(ans.split()[1])
                return '(TBld %s %d %d %s %s %s)' % (coq, d, s, zl(f), zl(m), o)
            reqs.append((line, mk, 'bld'))
    return reqs


def run(chk):
    res = vlib.prove(chk, ['Opcodes', 'Codec', 'Builder'],
                     ['theories/Cases.vo', 'theories/BuilderSpec.vo', 'gen/Codec.vo', 'gen/Builder.vo'],
                     'C17', ['theories/BitLemmas.v', 'theories/ListLemmas.v', 'theories/CodecProofs.v'])
    found = False
    if res['model_ok']:
        binary = vlib.harness_build('debug')
        reqs = gen_cases(chk)
        answers = vlib.harness_run(binary, [r[0] for r in reqs])
        terms = [r[1](a) for r, a in zip(reqs, answers)]
        bad, errors = vlib.coq_eval('C17', HEADER, terms, 'check')
        if errors:
            raise vlib.Broken('model evaluation failed: ' + errors[0])
        kinds = {}
        distinct = set()
        for r, a in zip(reqs, answers):
            kinds[r[2]] = kinds.get(r[2], 0) + 1
            distinct.add((r[2], a.split()[0], r[0]))
        chk.cov['evaluations'] = len(reqs)
        chk.cov['distinct_nontrivial'] = len(distinct)
        chk.cov['rule'] = ('directed grids (all 256 opcode bytes, all 16x16 register pairs, boundary offsets x immediates, '
                           'every builder constructor) + seeded random fields/slots; a case is distinct by its request line; '
                           'all are non-trivial (each compares 8 emitted bytes or 5 decoded fields, or a panic, with the model and the spec)')
        chk.cov['input_distribution'] = kinds
        chk.cov['samples'] = [{'request': reqs[i][0], 'implementation': answers[i]} for i in (0, 300, len(reqs) // 2, len(reqs) - 1)]
        for i, cd in bad[:10]:
            found = True
            model = vlib.coq_show('C17', HEADER, 'match %s with TEnc i _ _ => (gen_to_array i, Ok (spec_encode i)) | TDec p k _ => (Ok [opc (spec_decode_slot (firstn 8 (skipn (Z.to_nat (8*k)) p)))], Ok []) | TBld k d s f m _ => (gen_builder_into_bytes {| opc := bctor_opc k; dst := d; src := s; off := f; imm := m |}, Ok (spec_encode {| opc := bctor_opc k; dst := d; src := s; off := f; imm := m |})) end' % terms[i])
            chk.violation({'kind': 'counterexample', 'request': reqs[i][0], 'implementation_answer': answers[i],
                           'model_and_spec': model, 'engine': 'codec', 'profile': 'debug',
                           'meaning': ('implementation differs from the specified slot layout' if cd >= 2 else
                                       'model differs from implementation although the specification is met (tie B broken)')},
                          no_input=(cd == 1))
    vlib.report_broken(chk, res, found)
    chk.cov['trusted_base'] = ['Coq 8.16.1 kernel + vm_compute (no native_compute)', 'no axioms (Print Assumptions: closed under the global context)',
                               'translator tools/rs2v (units Codec, Builder, Opcodes), cross-checked on every run by the correspondence cases',
                               'harness/ (Rust) and the byteorder crate behind LittleEndian::read_*; opt_code_byte of builder constructors is tied by exhaustive enumeration of constructors only']
    chk.assumptions = ['usize is 64-bit; programs shorter than 2^63 bytes', 'register numbers 0..15 (as the property states)']
    chk.cov['explanation'] = 'theorems C17_* hold for all field values / all programs; correspondence compares real encoders, decoder and builder with model and spec'
