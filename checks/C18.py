"""C18 -- atomic add really is atomic under concurrent executions."""
import vlib
from checks import ebpf as B
from checks.interp_common import Case, run_cases, engine_compare
from checks import C01


def run(chk):
    res = vlib.prove(chk, C01.UNITS + ['Atomic'], C01.MODELS + ['theories/AtomicSpec.vo', 'gen/Atomic.vo'], 'C18',
                     ['theories/AtomicSpec.v', 'theories/InterpArmsMem.v', 'theories/MemLemmas.v'])
    found = False
    if res['model_ok']:
        binary = vlib.harness_build('debug')
        rng = vlib.Rng(chk.seed).fork('C18')
        thorough = chk.tier == 'thorough'
        # single-thread effect, all alignments, neighbours intact: interpreter vs model vs spec, then compiled engines
        cases = []
        for sz, n in (('w', 4), ('dw', 8)):
            for d in range(0, 9):
                for add in (1, 2 ** 32 - 1, 2 ** 64 - 1, 0x1_0000_0001, rng.next()):
                    p = B.movr(6, 1) + B.alu('add', 6, imm=8 + d) + B.load_const(3, add) + B.xadd(sz, 6, 3, 0) + B.xadd(sz, 6, 3, 0) + \
                        B.mov(0, 0) + B.EXIT
                    cases.append(Case(p, mem=bytes((9 * i + 1) & 255 for i in range(40)), fam='single:%s:%d' % (sz, d)))
        # every (base, addend) register pair: each pair is a different machine encoding under the JIT
        for sz, n in (('w', 4), ('dw', 8)):
            for base in range(1, 10):
                for val in range(0, 10):
                    if val == base:
                        continue
                    p = (B.movr(base, 1) if base != 1 else b'') + B.alu('add', base, imm=8) + B.load_const(val, rng.choice([1, 2 ** 32 - 1, 2 ** 64 - 1, rng.next()])) + \
                        B.xadd(sz, base, val, 8) + B.mov(0, 0) + B.EXIT
                    cases.append(Case(p, mem=bytes((5 * i + 2) & 255 for i in range(40)), fam='regs:%s:0' % sz))
        answers, bad, skipped = run_cases(chk, 'C18', cases, binary)
        for i, cd in bad:
            found = True
            if len(chk.violations) < 8:
                chk.violation({'kind': 'counterexample', 'request': cases[i].line(), 'implementation_answer': answers[i]['raw'][:300],
                               'meaning': ('single-thread atomic add differs from the specification' if cd >= 2 else
                                           'model differs from implementation (tie B broken)')}, no_input=(cd == 1))
        aligned = [c for c in cases if int(c.fam.split(':')[2]) % (4 if ':w:' in c.fam else 8) == 0]
        eng, diffs = engine_compare(binary, aligned, engines=('jit', 'cl'), kind='raw')
        for i, e, a, b in diffs:
            found = True
            if len(chk.violations) < 8:
                chk.violation({'kind': 'counterexample', 'request': aligned[i].line(engine=e, kind='raw'), 'interpreter_answer': a['raw'][:200],
                               'engine_answer': b['raw'][:200], 'engine': e, 'meaning': 'compiled atomic add differs from the interpreter'})
        # concurrent executions on one word: no update may be lost (supporting evidence + failing-schedule search)
        lines = []
        confs = []
        adds = 200000 if thorough else 30000
        for width in (4, 8):
            for engines in ('interp', 'jit', 'cl', 'interp,jit', 'interp,jit,cl'):
                for threads in ((2, 4, 8) if thorough else (4,)):
                    addend = rng.choice([1, 3, 2 ** 31 + 1, 2 ** 32 - 1])
                    init = rng.below(2 ** 32)
                    lines.append('xadd engines=%s threads=%d adds=%d width=%d addend=%d init=%d' % (engines, threads, adds, width, addend, init))
                    confs.append((width, threads, addend, init))
        outs = vlib.harness_run(binary, lines, shards=2, timeout=1200)
        for line, (width, threads, addend, init), a in zip(lines, confs, outs):
            t = a.split()
            exp = (init + threads * adds * addend) % (2 ** (8 * width))
            ok = len(t) >= 4 and t[0] == 'FINAL' and int(t[1], 16) == exp and t[2] == 'ok=%d' % threads
            if ok:
                area = bytes.fromhex(t[3].split('=')[1])
                ok = area[:8] == b'\xa5' * 8 and area[16:] == b'\xa5' * 8 and (width == 8 or area[12:16] == b'\xa5' * 4)
            if not ok:
                found = True
                chk.violation({'kind': 'counterexample', 'request': line, 'answer': a[:200], 'expected_final': hex(exp),
                               'meaning': 'concurrent atomic adds lost an update or touched a neighbouring byte'})
        chk.cov['evaluations'] = len(cases) + len(lines)
        chk.cov['distinct_nontrivial'] = len(cases) + len(lines)
        chk.cov['rule'] = ('single execution: 2 widths x 9 alignments x 5 addends and 2 widths x every (base, addend) register pair (interpreter = model = spec; JIT and Cranelift = interpreter on '
                           'aligned addresses); concurrent: engines {interp, jit, cl, mixes} x width x thread counts with %d adds per thread on a shared '
                           'word in registered memory, final value and neighbouring bytes checked; all non-trivial' % adds)
        chk.cov['input_distribution'] = {'single': len(cases), 'concurrent_runs': len(lines)}
        chk.cov['samples'] = [{'request': lines[0], 'answer': outs[0][:120]}, {'request': cases[0].line()[:200], 'answer': answers[0]['raw'][:120]}]
    vlib.report_broken(chk, res, found)
    chk.cov['trusted_base'] = ['Coq 8.16.1 kernel', 'no axioms', 'translator tools/rs2v (units Interp, Atomic: syntactic recognition of fetch_add / lock add / atomic_rmw)',
                               'indivisibility of lock-prefixed add, of AtomicU32/U64::fetch_add as compiled by LLVM, and of Cranelift atomic_rmw: trusted (hardware / compilers)',
                               'harness/ xadd command (threads)']
    chk.assumptions = ['x86-64 target', 'the concurrent runs are supporting evidence and the failing-schedule search, not a proof']
    chk.cov['explanation'] = ('PARTIAL: C18_atomic_sum proves that indivisible adds never lose an update for every interleaving; C18_engines_use_atomic_rmw ties '
                              'each engine to that model; indivisibility itself is trusted')
