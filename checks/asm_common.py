"""Shared by the assembler checks (C13 C14 C16): text generators, the model header and the evaluation
of the assembler model (theories/AsmModel.v) against the real assembler through the harness."""
import vlib
from vlib import zhex

ALU = ['add', 'sub', 'mul', 'div', 'or', 'and', 'lsh', 'rsh', 'mod', 'xor', 'mov', 'arsh']
ALU_CODE = {'add': 0, 'sub': 1, 'mul': 2, 'div': 3, 'or': 4, 'and': 5, 'lsh': 6, 'rsh': 7, 'mod': 9, 'xor': 10, 'mov': 11, 'arsh': 12}
JMP = ['jeq', 'jgt', 'jge', 'jlt', 'jle', 'jset', 'jne', 'jsgt', 'jsge', 'jslt', 'jsle']
JMP_CODE = {'jeq': 1, 'jgt': 2, 'jge': 3, 'jset': 4, 'jne': 5, 'jsgt': 6, 'jsge': 7, 'jlt': 10, 'jle': 11, 'jslt': 12, 'jsle': 13}
SIZES = {'w': 0x00, 'h': 0x08, 'b': 0x10, 'dw': 0x18}

OFFS = [-32769, -32768, -32767, -256, -129, -128, -1, 0, 1, 9, 10, 15, 16, 127, 128, 255, 256, 0x1234, 32766, 32767, 32768, 65535, 65536]
IMMS = [-2 ** 31 - 1, -2 ** 31, -2 ** 31 + 1, -0x10000, -256, -1, 0, 1, 9, 10, 16, 255, 256, 0xffff, 0x10000, 0x12345678, 0x7fffffff,
        2 ** 31, 2 ** 32 - 1, 2 ** 32]
IMM64 = [-2 ** 63, -2 ** 63 + 1, -2 ** 32 - 1, -2 ** 32, -2 ** 31 - 1, -2 ** 31, -1, 0, 1, 2 ** 31 - 1, 2 ** 31, 2 ** 32 - 1, 2 ** 32,
         0x1122334455667788, 0x7fffffffffffffff, 0x8000000000000000, 0xdeadbeef80000001, 0xffffffffffffffff]
REGS = list(range(0, 17)) + [31, 99, 255, 256]

# mnemonic -> (shape, opcode)      shapes name the operand list in the documented syntax
def mnemonic_table():
    t = {'exit': ('none', 0x95), 'ja': ('ja', 0x05), 'call': ('call', 0x85), 'callx': ('callx', 0x85), 'lddw': ('lddw', 0x18),
         'neg': ('unary', 0x87), 'neg32': ('unary', 0x84), 'neg64': ('unary', 0x87)}
    for n in ALU:
        c = ALU_CODE[n] << 4
        t[n] = ('alu', c | 7)
        t[n + '32'] = ('alu', c | 4)
        t[n + '64'] = ('alu', c | 7)
    for sfx, sz in SIZES.items():
        t['ldabs' + sfx] = ('ldabs', 0x20 | sz)
        t['ldind' + sfx] = ('ldind', 0x40 | sz)
        t['ldx' + sfx] = ('ldx', 0x61 | sz)
        t['st' + sfx] = ('st', 0x62 | sz)
        t['stx' + sfx] = ('stx', 0x63 | sz)
    for n in JMP:
        c = JMP_CODE[n] << 4
        t[n] = ('jmp', c | 5)
        t[n + '32'] = ('jmp', c | 6)
    for sz in (16, 32, 64):
        t['be%d' % sz] = ('endian', 0xdc)
        t['le%d' % sz] = ('endian', 0xd4)
    return t


TABLE = mnemonic_table()


class Speller:
    """spellings of numbers, registers and separators; `fancy` = 0 canonical .. 2 adversarial-but-valid"""

    def __init__(self, rng, fancy=1):
        self.rng, self.fancy = rng, fancy

    def num(self, v):
        r = self.rng
        sign = ''
        if v < 0:
            sign, v = '-', -v
        elif self.fancy and r.chance(1, 4):
            sign = '+'
        if r.chance(1, 2):
            s = '%d' % v
            if self.fancy and r.chance(1, 5):
                s = '0' * (1 + r.below(25)) + s
        else:
            s = '%x' % v
            if self.fancy and r.chance(1, 4):
                s = s.upper()
            if self.fancy and r.chance(1, 5):
                s = '0' * (1 + r.below(25)) + s
            s = '0x' + s
        return sign + s

    def reg(self, n):
        s = '%d' % n
        if self.fancy and self.rng.chance(1, 8):
            s = '0' * (1 + self.rng.below(3)) + s
        return 'r' + s

    def sep(self):
        if not self.fancy:
            return ', '
        return ',' + self.rng.choice(['', ' ', ' ', '  ', '\t', ' \n '])

    def ws(self):
        if not self.fancy:
            return ' '
        return self.rng.choice([' ', ' ', '  ', '\t', ' \t '])

    def mem(self, r, off):
        if off == 0 and self.rng.chance(1, 2):
            return '[%s]' % self.reg(r)
        s = self.num(off)
        if s[0] not in '+-':
            s = '+' + s
        return '[%s%s]' % (self.reg(r), s)


def gen_insn(rng, sp, name=None, in_range=True):
    """-> (text, expected) where expected = list of (opc, dst, src, off, imm) slots, or None when an operand is out of range"""
    name = name or rng.choice(sorted(TABLE))
    shape, opc = TABLE[name]
    regs = list(range(16)) if in_range else REGS
    offs = [o for o in OFFS if -32768 <= o <= 32767] if in_range else OFFS
    imms = [m for m in IMMS if -2 ** 31 <= m < 2 ** 31] if in_range else IMMS
    d, s = rng.choice(regs), rng.choice(regs)
    off = rng.choice(offs) if rng.chance(2, 3) else (rng.below(65536) - 32768)
    imm = rng.choice(imms) if rng.chance(2, 3) else (rng.below(2 ** 32) - 2 ** 31)
    ok = d < 16 and s < 16 and -32768 <= off <= 32767 and -2 ** 31 <= imm < 2 ** 31
    w = sp.ws()
    if shape == 'none':
        return name, [(opc, 0, 0, 0, 0)]
    if shape == 'ja':
        t = sp.num(off)
        return name + w + t, ([(opc, 0, 0, off, 0)] if -32768 <= off <= 32767 else None)
    if shape in ('call', 'callx', 'ldabs'):
        src = 1 if shape == 'callx' else 0
        return name + w + sp.num(imm), ([(opc, 0, src, 0, imm)] if -2 ** 31 <= imm < 2 ** 31 else None)
    if shape == 'lddw':
        v = rng.choice(IMM64) if rng.chance(2, 3) else rng.below(2 ** 64) - 2 ** 63
        spelled = v
        if v >= 2 ** 63:          # values above i64::MAX can only be written in hexadecimal
            txt = '0x%x' % v
        elif v == -2 ** 63:
            txt = rng.choice(['-9223372036854775808', '-0x8000000000000000']) if False else '-0x8000000000000000'
        else:
            txt = sp.num(spelled)
        lo = v & 0xffffffff
        hi = (v >> 32) & 0xffffffff
        sx = lambda x: x - 2 ** 32 if x >= 2 ** 31 else x  # noqa: E731
        return name + w + sp.reg(d) + sp.sep() + txt, ([(opc, d, 0, 0, sx(lo)), (0, 0, 0, 0, sx(hi))] if d < 16 else None)
    if shape == 'unary':
        return name + w + sp.reg(d), ([(opc, d, 0, 0, 0)] if d < 16 else None)
    if shape == 'endian':
        return name + w + sp.reg(d), ([(opc, d, 0, 0, int(name[2:]))] if d < 16 else None)
    if shape == 'alu':
        if rng.chance(1, 2):
            return name + w + sp.reg(d) + sp.sep() + sp.reg(s), ([(opc | 8, d, s, 0, 0)] if d < 16 and s < 16 else None)
        return name + w + sp.reg(d) + sp.sep() + sp.num(imm), ([(opc, d, 0, 0, imm)] if d < 16 and -2 ** 31 <= imm < 2 ** 31 else None)
    if shape == 'ldind':
        return name + w + sp.reg(s) + sp.sep() + sp.num(imm), ([(opc, 0, s, 0, imm)] if s < 16 and -2 ** 31 <= imm < 2 ** 31 else None)
    if shape == 'ldx':
        return name + w + sp.reg(d) + sp.sep() + sp.mem(s, off), ([(opc, d, s, off, 0)] if d < 16 and s < 16 and -32768 <= off <= 32767 else None)
    if shape == 'st':
        return name + w + sp.mem(d, off) + sp.sep() + sp.num(imm), ([(opc, d, 0, off, imm)] if ok or (d < 16 and -32768 <= off <= 32767 and -2 ** 31 <= imm < 2 ** 31) else None)
    if shape == 'stx':
        return name + w + sp.mem(d, off) + sp.sep() + sp.reg(s), ([(opc, d, s, off, 0)] if d < 16 and s < 16 and -32768 <= off <= 32767 else None)
    if shape == 'jmp':
        if rng.chance(1, 2):
            return name + w + sp.reg(d) + sp.sep() + sp.reg(s) + sp.sep() + sp.num(off), \
                ([(opc | 8, d, s, off, 0)] if d < 16 and s < 16 and -32768 <= off <= 32767 else None)
        return name + w + sp.reg(d) + sp.sep() + sp.num(imm) + sp.sep() + sp.num(off), \
            ([(opc, d, 0, off, imm)] if d < 16 and -32768 <= off <= 32767 and -2 ** 31 <= imm < 2 ** 31 else None)
    raise AssertionError(shape)


def slot_bytes(sl):
    opc, d, s, off, imm = sl
    return bytes([opc, (s << 4) | d]) + (off & 0xffff).to_bytes(2, 'little') + (imm & 0xffffffff).to_bytes(4, 'little')


def gen_program(rng, sp, n, in_range=True):
    texts, exp = [], []
    for _ in range(n):
        t, e = gen_insn(rng, sp, in_range=in_range)
        texts.append(t)
        if exp is not None:
            exp = None if e is None else exp + e
    lead = rng.choice(['', '', ' ', '\n', '  \n\t']) if sp.fancy else ''
    trail = rng.choice(['', '', '\n', ' ', ' \n ']) if sp.fancy else ''
    joiner = (lambda: rng.choice(['\n', '\n', '\n    ', ' \n', '\n\n', '\r\n', ' ', '\t'])) if sp.fancy else (lambda: '\n')
    s = lead
    for i, t in enumerate(texts):
        s += t + (joiner() if i + 1 < len(texts) else '')
    return s + trail, exp


MUT_ALPHABET = list('r0123456789abcdefxXAF+-,[] \n\t_.*#;') + ['é', 'λ', '٣', ' ', '　', '​', '中', '\U0001f600']


def malformed(rng, sp):
    """text that is mostly not valid: literal extremes, truncations, wrong shapes, character-level mutations"""
    k = rng.below(12)
    if k == 0:      # oversized literals in every operand position
        big = rng.choice(['9' * rng.choice([19, 20, 40]), '0x' + 'f' * rng.choice([16, 17, 32]), '9223372036854775808', '9223372036854775807',
                          '18446744073709551615', '18446744073709551616', '0x10000000000000000', '-9223372036854775808',
                          '-0x8000000000000000', '-0x8000000000000001', '-0xffffffffffffffff', '0x' + '0' * 30 + '1'])
        tpl = rng.choice(['mov r1, %s', 'lddw r1, %s', 'ja %s', 'ldxw r1, [r2+%s]', 'jeq r1, %s, +1', 'jeq r1, 1, %s', 'call %s', 'stw [r1%s], 1',
                          'ldabsb %s', 'ldindw r1, %s', 'stb [r1+2], %s', 'lddw r1, %s\nexit'])
        if '[r1%s]' in tpl and big[0] not in '+-':
            big = '+' + big
        return tpl % big
    if k == 1:      # huge register numbers
        r = rng.choice(['r16', 'r99', 'r255', 'r256', 'r4294967296', 'r9223372036854775807', 'r9223372036854775808', 'r' + '9' * 30, 'r', 'r-1', 'r+1', 'rx',
                        'r1x', 'R1', 'r 1', 'r01'])
        return rng.choice(['mov %s, 1', 'mov r1, %s', 'ldxw r1, [%s+1]', 'stxw [%s], r1', 'neg %s', 'be16 %s', 'jeq %s, r1, +1', 'ldindw %s, 1']) % r
    if k == 2:      # truncated operands
        t, _ = gen_insn(rng, sp)
        cut = rng.below(len(t) + 1)
        return t[:cut]
    if k == 3:      # wrong operand shapes
        name = rng.choice(sorted(TABLE))
        ops = [rng.choice(['r1', '5', '[r1+2]', '-0x3', '[r2]', 'r15']) for _ in range(rng.below(5))]
        return name + ' ' + ', '.join(ops)
    if k == 4:      # unknown mnemonics
        return rng.choice(['nop', 'add16 r1, 2', 'mov128 r1, 1', 'ldxq r1, [r2]', 'exit2', 'EXIT', 'Mov r1, 1', 'tail_call', 'stxxaddw [r1+2], r3', 'be8 r1',
                           'le128 r1', 'jeq64 r1, 1, +1', 'callx', 'lddw', 'r1', '5', '[r1]', ',', 'mov,r1', 'éxit', 'exité'])
    if k == 5:      # instructions glued together / odd separators
        a, _ = gen_insn(rng, sp)
        b, _ = gen_insn(rng, sp)
        return a + rng.choice(['', ';', ' ; ', ',', ', ', ' ', '　', '​', '\x0b', '\x0c', '\x85', '\x1c']) + b
    if k == 6:      # an instruction without operands followed by a mnemonic starting with r
        return rng.choice(['exit', 'exit\n', 'ja 1\n']) + rng.choice(['rsh64 r1, 2', 'rsh r1, r2', 'rsh32 r3, 1', 'r1', 'rax'])
    if k == 7:      # sign without digits, double signs, hex prefix alone
        v = rng.choice(['+', '-', '+-1', '--1', '0x', '-0x', '0xg', '0X10', '1x', '0x1g', '+ 1', '- 1', '1 2', '0x 1', '1e3', '1_000', '1.5', '٣'])
        return rng.choice(['mov r1, %s', 'ja %s', 'ldxw r1, [r2%s]', 'lddw r1, %s']) % v
    # character-level mutations of a valid program
    t, _ = gen_program(rng, sp, 1 + rng.below(3))
    t = list(t)
    for _ in range(1 + rng.below(3)):
        op = rng.below(3)
        pos = rng.below(len(t) + 1)
        if op == 0 and t:
            del t[min(pos, len(t) - 1)]
        elif op == 1:
            t.insert(pos, rng.choice(MUT_ALPHABET))
        elif t:
            t[min(pos, len(t) - 1)] = rng.choice(MUT_ALPHABET)
    return ''.join(t)


HEADER = '''From Coq Require Import ZArith List Bool String.
From RbpfV Require Import MachInt Ebpf Cases AsmDefs AsmParser AsmModel.
Import ListNotations.
Open Scope Z_scope.

(* classification of the non-ASCII characters used by the cases, as reported by the implementation's std *)
Definition utab : list (Z * (bool * bool * bool)) := [%(utab)s].
Definition ulook (f : bool * bool * bool -> bool) (c : Z) : bool :=
  match find (fun e => fst e =? c) utab with Some e => f (snd e) | None => false end.
Definition U0 : uclass := {| u_alnum := ulook (fun t => fst (fst t)); u_alpha := ulook (fun t => snd (fst t)); u_space := ulook snd |}.

(* code 1: model <> implementation *)
Definition check_asm (c : list Z * outcome (list Z)) : Z :=
  if res_matches list_eqb (assemble U0 (fst c)) (snd c) then 0 else 1.
'''


def codepoints(s):
    return '[%s]' % '; '.join(str(ord(ch)) for ch in s)


def outcome_term(ans):
    if ans.startswith('OK'):
        parts = ans.split()
        b = bytes.fromhex(parts[1]) if len(parts) > 1 and parts[1] != '-' else b''
        return '(OOk %s)' % zhex(b)
    if ans.startswith('ERR'):
        return 'OErr'
    if ans.startswith('PANIC'):
        return 'OPanic'
    return None


def run_texts(binary, texts):
    """-> (answers, header with the unicode table filled in)"""
    answers = vlib.harness_run(binary, ['asm %s' % (t.encode('utf-8').hex() or '-') for t in texts])
    nonascii = sorted({ch for t in texts for ch in t if ord(ch) >= 128})
    tab = []
    if nonascii:
        a = vlib.harness_run(binary, ['cls %s' % ''.join(nonascii).encode('utf-8').hex()])[0]
        for item in a.split()[1:]:
            cp, fl = item.split(':')
            tab.append('(%s, (%s, %s, %s))' % (cp, *['true' if x == '1' else 'false' for x in fl]))
    return answers, HEADER % {'utab': '; '.join(tab)}


def model_compare(tag, binary, texts, extra_header='', check_fn='check_asm', term_of=None, src_terms=None):
    """evaluate the model on the texts; -> (answers, bad [(index, code)], header)"""
    answers, header = run_texts(binary, texts)
    terms, idx, crashed = [], [], []
    for i, (t, a) in enumerate(zip(texts, answers)):
        o = outcome_term(a)
        if o is None:
            crashed.append((i, 4))
            continue
        src = (src_terms or {}).get(i) or codepoints(t)
        terms.append(term_of(t, a, o) if term_of else '(%s, %s)' % (src, o))
        idx.append(i)
    bad, errors = vlib.coq_eval(tag, header + extra_header, terms, check_fn, shard_size=200)
    if errors:
        raise vlib.Broken('model evaluation failed: ' + errors[0])
    return answers, [(idx[i], cd) for i, cd in bad] + crashed, header + extra_header
