"""Small eBPF program builder used by the case generators (independent of rbpf's assembler)."""

# opcode classes
LD, LDX, ST, STX, ALU, JMP, JMP32, ALU64 = range(8)
ALU_OPS = {'add': 0x0, 'sub': 0x1, 'mul': 0x2, 'div': 0x3, 'or': 0x4, 'and': 0x5, 'lsh': 0x6, 'rsh': 0x7,
           'neg': 0x8, 'mod': 0x9, 'xor': 0xa, 'mov': 0xb, 'arsh': 0xc}
JMP_OPS = {'jeq': 0x1, 'jgt': 0x2, 'jge': 0x3, 'jset': 0x4, 'jne': 0x5, 'jsgt': 0x6, 'jsge': 0x7,
           'jlt': 0xa, 'jle': 0xb, 'jslt': 0xc, 'jsle': 0xd}
SIZES = {'w': 0x00, 'h': 0x08, 'b': 0x10, 'dw': 0x18}
SIZE_BYTES = {'w': 4, 'h': 2, 'b': 1, 'dw': 8}


def insn(opc, dst=0, src=0, off=0, imm=0):
    return bytes([opc & 255, ((src & 15) << 4) | (dst & 15)]) + (off & 0xffff).to_bytes(2, 'little') + \
        (imm & 0xffffffff).to_bytes(4, 'little')


def alu(op, dst, src=None, imm=0, w=64):
    cls = ALU64 if w == 64 else ALU
    if src is None:
        return insn((ALU_OPS[op] << 4) | cls, dst, 0, 0, imm)
    return insn((ALU_OPS[op] << 4) | 0x08 | cls, dst, src, 0, 0)


def mov(dst, imm):
    return alu('mov', dst, imm=imm)


def movr(dst, src):
    return alu('mov', dst, src=src)


def lddw(dst, v):
    v &= 2 ** 64 - 1
    return insn(0x18, dst, 0, 0, v & 0xffffffff) + insn(0, 0, 0, 0, v >> 32)


def load_const(dst, v):
    """shortest way to put the 64-bit value v into dst"""
    v &= 2 ** 64 - 1
    sv = v - 2 ** 64 if v >= 2 ** 63 else v
    if -2 ** 31 <= sv < 2 ** 31:
        return mov(dst, sv)
    return lddw(dst, v)


def jmp(op, dst, off, src=None, imm=0, w=64):
    cls = JMP if w == 64 else JMP32
    if src is None:
        return insn((JMP_OPS[op] << 4) | cls, dst, 0, off, imm)
    return insn((JMP_OPS[op] << 4) | 0x08 | cls, dst, src, off, 0)


def ja(off):
    return insn(0x05, 0, 0, off, 0)


def ldx(sz, dst, src, off=0):
    return insn(0x61 | SIZES[sz], dst, src, off, 0)


def st(sz, dst, off, imm):
    return insn(0x62 | SIZES[sz], dst, 0, off, imm)


def stx(sz, dst, src, off=0):
    return insn(0x63 | SIZES[sz], dst, src, off, 0)


def xadd(sz, dst, src, off=0):
    return insn(0xc3 | SIZES[sz], dst, src, off, 0)


def ldabs(sz, imm):
    return insn(0x20 | SIZES[sz], 0, 0, 0, imm)


def ldind(sz, src, imm):
    return insn(0x40 | SIZES[sz], 0, src, 0, imm)


def endian(be, dst, width):
    return insn(0xdc if be else 0xd4, dst, 0, 0, width)


def call(imm):
    return insn(0x85, 0, 0, 0, imm)


def callx(imm):
    return insn(0x85, 0, 1, 0, imm)


EXIT = insn(0x95)

# all opcodes the interpreter implements
ALU_OPCODES = []
for _cls in (ALU, ALU64):
    for _name, _op in ALU_OPS.items():
        if _name == 'neg':
            ALU_OPCODES.append((_op << 4) | _cls)
        else:
            ALU_OPCODES.append((_op << 4) | _cls)
            ALU_OPCODES.append((_op << 4) | 0x08 | _cls)
JMP_OPCODES = [(op << 4) | s | cls for cls in (JMP, JMP32) for op in JMP_OPS.values() for s in (0, 8)]

B64 = [0, 1, 2, 7, 8, 31, 32, 33, 63, 64, 65, 2 ** 15 - 1, 2 ** 15, 2 ** 16 - 1, 2 ** 16, 2 ** 31 - 1, 2 ** 31, 2 ** 31 + 1,
       2 ** 32 - 1, 2 ** 32, 2 ** 32 + 1, 2 ** 63 - 1, 2 ** 63, 2 ** 63 + 1, 2 ** 64 - 2, 2 ** 64 - 1,
       0x0123456789abcdef, 0xfedcba9876543210, 0xffffffff00000000, 0x00000000ffffffff, 0x8000000080000000]
BI32 = [0, 1, 2, 7, 8, 16, 31, 32, 33, 63, 64, 65, 127, 128, 255, 256, 2 ** 15 - 1, 2 ** 15, 2 ** 16 - 1, 2 ** 16,
        2 ** 31 - 1, -1, -2, -8, -32, -33, -64, -65, -128, -129, -2 ** 15, -2 ** 16, -2 ** 31, -2 ** 31 + 1, 0x12345678, -0x12345678]
