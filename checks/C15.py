"""C15 -- disassembly reports every instruction's true fields and never panics."""
import vlib
from vlib import zhex

HEADER = '''From Coq Require Import ZArith List Bool String.
From RbpfV Require Import MachInt Ebpf Cases Fmt DisasmDefs DisasmSpec.
From RbpfV.gen Require Import Codec Disasm.
Import ListNotations.
Open Scope Z_scope.

(* an entry as the harness prints it: opc dst src off imm name-bytes text-bytes *)
Definition hentry := (Z * Z * Z * Z * Z * list Z * list Z)%type.

Definition entry_eqb (h : hlinsn) (e : hentry) : bool :=
  let '(o, d, s, f, m, n, t) := e in
  (h_opc h =? o) && (h_dst h =? d) && (h_src h =? s) && (h_off h =? f) && (h_imm h =? m)
  && list_eqb (bytes_of_string (h_name h)) n && list_eqb (bytes_of_string (h_desc h)) t.

Fixpoint entries_eqb (a : list hlinsn) (b : list hentry) : bool :=
  match a, b with
  | [], [] => true
  | h :: a', e :: b' => entry_eqb h e && entries_eqb a' b'
  | _, _ => false
  end.

Definition rmatch (r : res (list hlinsn)) (o : outcome (list hentry)) : bool :=
  match r, o with Ok a, OOk b => entries_eqb a b | Panic _, OPanic => true | _, _ => false end.

(* code 1: model <> implementation; code 2: implementation <> specification (inside its domain) *)
Definition check (c : list Z * outcome (list hentry)) : Z :=
  let '(p, o) := c in
  let model_ok := rmatch (gen_to_insn_vec (S (Z.to_nat (len p / 8))) p) o in
  let spec_ok := if len p mod 8 =? 0 then
                   match hl_list (decode_all p) with
                   | Some t => rmatch (Ok t) o
                   | None => true
                   end else true in
  (if model_ok then 0 else 1) + (if spec_ok then 0 else 2).

Definition in_domain (p : list Z) : bool :=
  (len p mod 8 =? 0) && match hl_list (decode_all p) with Some _ => true | None => false end.
'''

OFFS = [-32768, -32767, -256, -255, -129, -128, -16, -1, 0, 1, 15, 16, 127, 128, 255, 256, 0x1234, 32766, 32767]
IMMS = [-2 ** 31, -2 ** 31 + 1, -0x10000, -0xffff, -256, -1, 0, 1, 9, 10, 15, 16, 32, 64, 255, 256, 0xff00, 0xffff, 0x10000,
        0x12345678, 0x7f000000, 2 ** 31 - 1]

SUPPORTED = sorted(set(
    [0x30, 0x28, 0x20, 0x38, 0x50, 0x48, 0x40, 0x58, 0x18, 0x71, 0x69, 0x61, 0x79, 0x72, 0x6a, 0x62, 0x7a,
     0x73, 0x6b, 0x63, 0x7b, 0xc3, 0xdb, 0xd4, 0xdc, 0x84, 0x87, 0x05, 0x85, 0x8d, 0x95] +
    [c * 16 + k + cls for c in (0, 1, 2, 3, 4, 5, 6, 7, 9, 10, 11, 12) for k in (0, 8) for cls in (4, 7)] +
    [c * 16 + k + cls for c in (1, 2, 3, 4, 5, 6, 7, 10, 11, 12, 13) for k in (0, 8) for cls in (5, 6)]))


def slot(opc, dst, src, off, imm):
    return bytes([opc, (src << 4) | dst]) + (off & 0xffff).to_bytes(2, 'little') + (imm & 0xffffffff).to_bytes(4, 'little')


def gen_cases(chk):
    rng = vlib.Rng(chk.seed).fork('C15')
    thorough = chk.tier == 'thorough'
    progs = []   # (bytes, family)

    def insn(opc, d=None, s=None, f=None, m=None):
        d = rng.below(16) if d is None else d
        s = rng.below(16) if s is None else s
        if opc == 0x85 and s > 1 and not rng.chance(1, 8):
            s = rng.below(2)
        f = rng.choice(OFFS) if f is None else f
        m = rng.choice(IMMS) if m is None else m
        b = slot(opc, d, s, f, m)
        if opc == 0x18:
            b += slot(0 if rng.chance(3, 4) else rng.below(256), rng.below(2) * rng.below(16), 0, 0 if rng.chance(3, 4) else rng.choice(OFFS),
                      rng.choice(IMMS))
        return b
    progs.append((b'', 'empty'))
    # every supported opcode x boundary offsets and immediates, alone
    for opc in SUPPORTED:
        for f in (-32768, -1, 0, 32767):
            for m in (-2 ** 31, -1, 0, 16, 2 ** 31 - 1):
                progs.append((insn(opc, f=f, m=m), 'single'))
        for _ in range(12 if thorough else 3):
            progs.append((insn(opc), 'single'))
    # all register nibble pairs
    for d in range(16):
        for s in range(16):
            progs.append((insn(rng.choice(SUPPORTED), d=d, s=s), 'registers'))
    # offsets x immediates grid
    for f in OFFS:
        for m in IMMS:
            progs.append((insn(rng.choice(SUPPORTED), f=f, m=m), 'grid'))
    # longer programs over the supported opcodes
    for _ in range(1500 if thorough else 300):
        n = 1 + rng.below(12)
        progs.append((b''.join(insn(rng.choice(SUPPORTED)) for _ in range(n)), 'program'))
    # outside the domain: every opcode byte, call kinds 2.., wide load cut off, ragged lengths, random bytes
    for opc in range(256):
        progs.append((insn(opc, s=rng.below(3)) if opc != 0x18 else insn(opc), 'any-opcode'))
    for _ in range(40):
        progs.append((insn(rng.choice(SUPPORTED)) + slot(0x18, 1, 0, 0, 5), 'lddw-cut'))
        progs.append((bytes(rng.below(256) for _ in range(rng.below(40))), 'random-bytes'))
    return progs


def parse(ans):
    if ans.startswith('PANIC'):
        return 'OPanic'
    parts = ans.split(' | ')
    ents = []
    for e in parts[1:]:
        t = e.split()
        nm = bytes.fromhex(t[5]) if t[5] != '-' else b''
        ds = bytes.fromhex(t[6]) if len(t) > 6 and t[6] != '-' else b''
        ents.append('(%s, %s, %s, %s, %s, %s, %s)' % tuple(['(%s)' % x for x in t[:5]] + [zhex(nm), zhex(ds)]))
    return '(OOk [%s])' % '; '.join(ents)


UNITS = ['Opcodes', 'Codec', 'Disasm']
MODELS = ['theories/Cases.vo', 'theories/DisasmSpec.vo', 'gen/Disasm.vo']
PROOFS = ['theories/CodecProofs.v', 'theories/DisasmProofs.v']


def run(chk):
    res = vlib.prove(chk, UNITS, MODELS, 'C15', PROOFS)
    found = False
    if res['model_ok']:
        binary = vlib.harness_build('debug')
        progs = gen_cases(chk)
        answers = vlib.harness_run(binary, ['disasm %s' % (p.hex() if p else '-') for p, _ in progs])
        terms = ['(%s, %s)' % (zhex(p), parse(a)) for (p, _), a in zip(progs, answers)]
        bad, errors = vlib.coq_eval('C15', HEADER, terms, 'check', shard_size=150)
        if errors:
            raise vlib.Broken('model evaluation failed: ' + errors[0])
        fams, outs = {}, {}
        for (p, f), a in zip(progs, answers):
            fams[f] = fams.get(f, 0) + 1
            k = a.split()[0]
            outs[k] = outs.get(k, 0) + 1
        chk.cov['evaluations'] = len(progs)
        chk.cov['distinct_nontrivial'] = len({p for p, _ in progs if p})
        chk.cov['rule'] = ('every supported opcode with boundary offsets/immediates, all 16x16 register nibbles, offset x immediate grid, '
                           'random programs of 1..12 supported instructions (wide loads with arbitrary second halves), plus inputs outside the '
                           'domain (all 256 opcode bytes, call kinds >= 2, cut wide load, ragged lengths, random bytes) where only model = '
                           'implementation is compared; distinct = distinct non-empty byte strings')
        chk.cov['input_distribution'] = {'families': fams, 'implementation_outcomes': outs}
        chk.cov['samples'] = [{'request': 'disasm ' + progs[i][0].hex(), 'implementation': answers[i][:200]} for i in (1, len(progs) // 2)]
        for i, cd in bad[:10]:
            found = True
            chk.violation({'kind': 'counterexample', 'request': 'disasm ' + progs[i][0].hex(), 'implementation_answer': answers[i][:600],
                           'specification': vlib.coq_show('C15', HEADER, 'option_map (map h_desc) (hl_list (decode_all %s))' % zhex(progs[i][0]))[:600],
                           'engine': 'disassembler', 'profile': 'debug',
                           'meaning': ('disassembly differs from the specified entries on an input inside the property\'s domain' if cd >= 2 else
                                       'model differs from implementation (tie B broken)')}, no_input=(cd == 1))
    vlib.report_broken(chk, res, found)
    chk.cov['trusted_base'] = ['Coq 8.16.1 kernel + vm_compute', 'no axioms',
                               'translator tools/rs2v (units Disasm, Codec, Opcodes) incl. its rendering of format! ({} / {:#x}) through theories/Fmt.v',
                               'theories/DisasmSpec.v (mnemonic table and syntax, written from the ISA numbering)', 'harness/']
    chk.assumptions = ['usize is 64-bit; programs shorter than 2^63 bytes', 'log output of warn! is not part of the result']
    chk.cov['explanation'] = ('theorem C15_disassembly_is_specified: on every input in the domain the regenerated to_insn_vec returns exactly the '
                              'specified entries (hence no panic); correspondence compares the real to_insn_vec with model and specification')
