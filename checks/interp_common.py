"""Shared by the interpreter-level checks (C01 C02 C05 C07 C08 C09): run cases through the real
interpreter (harness) and through the regenerated model / the ISA specification inside Coq."""
import vlib
from vlib import zhex

HELPER_CODES = {'mix': 1, 'clobber': 2, 'rsp': 3, 'gather_bytes': 4, 'low': 2}   # low: the value of clobber, code placed below 2 GiB
ERR_KINDS = {'oob_load': 1, 'oob_store': 2, 'unaligned': 3, 'unknown_helper': 4, 'call_depth': 5, 'bad_call_type': 6,
             'tail_call': 7, 'no_program': 8, 'not_compiled': 9, 'budget': 10, 'verifier': 11, 'other': 12}

HEADER = '''From Coq Require Import ZArith List Bool.
From RbpfV Require Import MachInt Ebpf Cases Mem InterpDefs Stack Helpers Interp Isa.
From RbpfV.gen Require Import Interp.
Import ListNotations.
Open Scope Z_scope.

Definition calc_of (c : option (Z * list (Z * Z))) : option (Z -> Z) :=
  match c with
  | None => None
  | Some (d, tab) => Some (fun pc => match find (fun e => fst e =? pc) tab with Some e => snd e | None => d end)
  end.

Definition data_of (m : mem) (k : nat) : list Z := r_data (nth k m {| r_base := 0; r_data := [] |}).

(* status: 0 = returned, 1 = error, 2 = panic, 3 = budget exhausted *)
Definition outcome_matches (o : outcome) (st v : Z) (xmbuff xmem_ xx : list Z) : bool :=
  match o with
  | ODone r m => (st =? 0) && (r =? v) && list_eqb (data_of m 0) xmbuff && list_eqb (data_of m 1) xmem_
                 && list_eqb (data_of m 3) xx
  | OErr e m => (st =? 1) && (e =? v) && list_eqb (data_of m 0) xmbuff && list_eqb (data_of m 1) xmem_
                && list_eqb (data_of m 3) xx
  | OPanic => st =? 2
  | OFuel => st =? 3
  end.

(* mode mod 10: 0 = compare model and specification; 1 = model only (the case is outside the
   specification's claim, e.g. it exercises a listed known finding);
   mode >= 10: the program has no local call, so the stack-usage map has the single key 0
   (avoids scanning very long programs at every step) *)
Definition usage_of (mode : Z) (prog : list Z) (calc : option (Z * list (Z * Z))) : Z -> option Z :=
  if mode <? 10 then usage_map prog (calc_of calc)
  else fun pc => if pc =? 0 then Some (match calc_of calc with Some c => cast U16 (c 0) | None => 256 end) else None.

Definition check_run (mode : Z) (prog : list Z) (mbuff mem_ xmem : region) (stack_base : Z) (ranges helpers : list (Z * Z))
    (calc : option (Z * list (Z * Z))) (fuel : Z) (st v : Z) (xmbuff xmem_ xx : list Z) : Z :=
  let E := mk_env prog (helpers_of helpers) (usage_of mode prog calc) mbuff mem_ stack_base ranges in
  let m0 := mk_mem mbuff mem_ stack_base xmem in
  let model_ok := outcome_matches (run (Z.to_nat fuel) E m0) st v xmbuff xmem_ xx in
  let spec_ok := if mode mod 10 =? 0 then outcome_matches (isa_run (Z.to_nat fuel) E m0) st v xmbuff xmem_ xx else true in
  (if model_ok then 0 else 1) + (if spec_ok then 0 else 2).
'''


class Case:
    def __init__(self, prog, mem=b'', mbuff=b'', xmem=b'', ranges=(), helpers=(), calc=None, budget=10000,
                 fam='', place='end', mode=0, note='', prog_term=None):
        self.prog_term = prog_term
        self.prog, self.mem, self.mbuff, self.xmem = bytes(prog), bytes(mem), bytes(mbuff), bytes(xmem)
        self.ranges, self.helpers, self.calc, self.budget = list(ranges), list(helpers), calc, budget
        self.fam, self.place, self.mode, self.note = fam, place, mode, note

    def line(self, engine='interp', kind='mbuff'):
        h = lambda b: b.hex() if b else '-'  # noqa: E731
        s = 'run engine=%s kind=%s prog=%s mem=%s mbuff=%s xmem=%s budget=%d place=%s' % (
            engine, kind, h(self.prog), h(self.mem), h(self.mbuff), h(self.xmem), self.budget, self.place)
        if self.ranges:
            s += ' ranges=' + ','.join('%d:%d' % r for r in self.ranges)
        if self.helpers:
            s += ' helpers=' + ','.join('%d:%s' % hh for hh in self.helpers)
        if self.calc is not None:
            s += ' calc=' + ';'.join([str(self.calc[0])] + ['%d:%d' % e for e in self.calc[1]])
        return s


def parse_answer(ans):
    """-> dict(status, val, mem, mbuff, xmem, L=(mem,mbuff,xmem,stack), dmg, hc, raw)"""
    d = {'raw': ans}
    parts = ans.split()
    st = parts[0]
    if st.startswith('OK:'):
        d['status'], d['val'] = 0, int(st[3:], 16)
    elif st.startswith('ERR:'):
        k = st[4:]
        if k == 'budget':
            d['status'], d['val'] = 3, 0
        else:
            d['status'], d['val'] = 1, ERR_KINDS.get(k, 12)
        d['kind'] = k
    elif st.startswith('PANIC'):
        d['status'], d['val'] = 2, 0
    else:
        d['status'], d['val'] = 9, 0     # SIGNAL / TIMEOUT / harness trouble
    for p in parts[1:]:
        if '=' in p:
            k, v = p.split('=', 1)
            d[k] = v
    for k in ('mem', 'mbuff', 'xmem'):
        v = d.get(k, '-')
        d[k] = bytes.fromhex(v) if v != '-' else b''
    if 'L' in d:
        d['L'] = tuple(int(x, 16) for x in d['L'].split(','))
    return d


def zl(v):
    return '(%d)' % v if v < 0 else str(v)


def region(base, data):
    return '{| r_base := %d; r_data := %s |}' % (base, zhex(data))


def coq_term(c, a):
    """Gallina application of check_run for case c with parsed answer a (needs the layout from the answer)"""
    if 'L' not in a:
        return None
    memb, mbuffb, xmemb, stackb = a['L']
    ranges = '[%s]' % '; '.join('(%d, %d)' % ((xmemb + o) % 2 ** 64, (xmemb + o + ln) % 2 ** 64) for o, ln in c.ranges)
    # registrations in the order they are made; the model looks an id up from the most recent one back
    helpers = '[%s]' % '; '.join('(%d, %d)' % (i, HELPER_CODES[n]) for i, n in reversed(c.helpers))
    if c.calc is None:
        calc = 'None'
    else:
        calc = '(Some (%d, [%s]))' % (c.calc[0], '; '.join('(%d, %d)' % e for e in c.calc[1]))
    # at the time of an error the harness reports the memory as it is then; on a panic / budget nothing is compared
    return '(check_run %d %s %s %s %s %d %s %s %s %d %d %d %s %s %s)' % (
        c.mode, c.prog_term or zhex(c.prog), region(mbuffb, c.mbuff), region(memb, c.mem), region(xmemb, c.xmem), stackb, ranges, helpers, calc,
        c.budget, a['status'], a['val'], zhex(a['mbuff']), zhex(a['mem']), zhex(a['xmem']))


def run_cases(chk, tag, cases, binary, header=HEADER, show_fn=None):
    """-> (answers, bad list[(index, code)])"""
    answers = [parse_answer(x) for x in vlib.harness_run(binary, [c.line() for c in cases])]
    terms, idx = [], []
    skipped = []
    crashed = []
    for i, (c, a) in enumerate(zip(cases, answers)):
        t = coq_term(c, a)
        if t is None or a['status'] == 9:
            skipped.append(i)
            if a['status'] in (2, 9):
                crashed.append((i, 4))     # code 4: the real interpreter panicked / crashed on this case
            continue
        terms.append(t)
        idx.append(i)
    bad, errors = vlib.coq_eval(tag, header, terms, '(fun c => c)', shard_size=250)
    if errors:
        raise vlib.Broken('model evaluation failed: ' + errors[0])
    return answers, [(idx[i], cd) for i, cd in bad] + crashed, skipped


def engine_compare(binary, cases, engines=('jit', 'cl'), kind='mbuff', profile='debug'):
    """Run the cases on the interpreter and on the compiled engines (real crate only) and return
    the list of disagreements on cases where the interpreter returns a value:
    [(case index, engine, interp answer, engine answer)].  Also returns the parsed answers."""
    res = {}
    for eng in ('interp',) + tuple(engines):
        res[eng] = [parse_answer(x) for x in vlib.harness_run(binary, [c.line(engine=eng, kind=kind) for c in cases])]
    diffs = []
    for i, c in enumerate(cases):
        a = res['interp'][i]
        if a['status'] != 0:
            continue
        for eng in engines:
            b = res[eng][i]
            same = (b['status'] == 0 and b['val'] == a['val'] and b['mem'] == a['mem'] and b['mbuff'] == a['mbuff']
                    and b['xmem'] == a['xmem'])
            if not same:
                diffs.append((i, eng, a, b))
    return res, diffs
