"""C10 -- loading, verifying and compiling stay consistent over any history of API calls."""
import itertools
import vlib
from checks import ebpf as B

# programs (all safe to execute); value = r0 on the fixed 16-byte packet
P1 = B.mov(0, 1) + B.EXIT
P2 = B.mov(0, 2) + B.EXIT
PW = B.lddw(10, 0x7000) + B.mov(0, 3) + B.EXIT               # accepted by "ends in exit" and accept-all only
PBAD = B.mov(0, 4) + B.EXIT + B.insn(0x85, 0, 2, 0, 0) + B.EXIT   # unreachable call of unknown kind: accepted by accept-all only;
#                                                               both compilers refuse it with an error
PH = B.mov(1, 5) + B.mov(2, 0) + B.mov(3, 0) + B.mov(4, 0) + B.mov(5, 0) + B.insn(0x85, 0, 0, 0, 1) + B.EXIT   # calls helper 1
# main -> f1 -> f2, f2 returns f1's frame size (f1 starts at a different pc in the two programs): interpreter only
PC = B.callx(1) + B.EXIT + B.movr(6, 10) + B.callx(1) + B.EXIT + B.movr(0, 6) + B.alu('sub', 0, src=10) + B.EXIT
PD = B.mov(0, 0) + B.callx(1) + B.EXIT + B.movr(6, 10) + B.callx(1) + B.EXIT + B.movr(0, 6) + B.alu('sub', 0, src=10) + B.EXIT
# P1 followed by dead code: the same value, another program (loaded from the same address in the same-address histories)
P1L = P1 + B.mov(0, 9) + B.EXIT
PROGS = {'P1': P1, 'P2': P2, 'PW': PW, 'PBAD': PBAD, 'PH': PH, 'PC': PC, 'PD': PD, 'P1L': P1L}
PCODE = {'P1': 1, 'P2': 2, 'PW': 3, 'PBAD': 4, 'PH': 5, 'PC': 6, 'PD': 7, 'P1L': 8}
VCODE = {'default': 0, 'accept': 1, 'reject': 2, 'exit': 3}

HEADER = '''From Coq Require Import ZArith List Bool.
From RbpfV Require Import VmApi.
Import ListNotations.
Open Scope Z_scope.

(* programs 1..8 = P1 P2 PW PBAD PH PC PD P1L; verifiers 0..3 = default accept-all reject-all ends-in-exit-without-calls;
   calculators: 0 = none installed (256 bytes per frame), c = the constant c *)
Definition accepts (v p : Z) : bool :=
  match v with
  | 0 => (p =? 1) || (p =? 2) || (p =? 5) || (p =? 6) || (p =? 7) || (p =? 8)
  | 1 => true
  | 2 => false
  | _ => (p =? 1) || (p =? 2) || (p =? 3) || (p =? 8)
  end.
(* registrations, most recent first: 1 = helper id 1 bound to h_mix, 1001 = helper id 1 bound to h_clobber *)
Fixpoint reg1 (h : list Z) : Z :=
  match h with [] => 0 | x :: r => if x =? 1 then 1 else if x =? 1001 then 2 else reg1 r end.
(* PC / PD return the frame size of their middle function: that of the table in use if it was computed from this very program *)
Definition value (p : Z) (h : list Z) (u : option (Z * Z)) : Z + unit :=
  match p with 1 => inl 1 | 2 => inl 2 | 3 => inl 3 | 4 => inl 4 | 8 => inl 1
  | 6 | 7 => match u with Some (q, c) => if q =? p then inl (if c =? 0 then 256 else c) else inl (-1) | None => inl (-1) end
  | _ => match reg1 h with 1 => inl 16 | 2 => inl 6 | _ => inr tt end end.   (* h_mix 5 0 0 0 0 = 16, h_clobber 5 .. = 6 *)
Definition cvalue (p : Z) (h : list Z) : Z + unit := value p h None.
Definition compilable (p : Z) (h : list Z) : bool := if p =? 5 then negb (reg1 h =? 0) else negb (p =? 4).
Definition hadd (h : list Z) (id : Z) : list Z := id :: h.

Definition opZ := op Z Z Z.
(* outputs as numbers: 0 ok, 1 err verifier, 2 no program, 3 not compiled, 4 compile error, 5 unknown helper, 100+v value *)
Definition code (o : out) : Z :=
  match o with RUnit => 0 | RErrVerifier => 1 | RErrNoProgram => 2 | RErrNotCompiled => 3 | RErrCompile => 4
             | RErrHelper => 5 | RVal v => 100 + v end.
(* a case: initial program (0 = none), history, observed answers (first = answer of new: 0 ok / 1 refused) *)
Definition check (c : Z * list opZ * list Z) : Z :=
  let '(p0, ops, obs) := c in
  match i_new Z Z accepts 0 (list Z) Z 0 (if p0 =? 0 then None else Some p0) [] with
  | None => if list_eqb_z obs [1] then 0 else 1
  | Some i =>
      let model := 0 :: map code (i_run Z Z accepts (list Z) hadd Z value cvalue compilable i ops) in
      let spec := 0 :: map code (a_run Z Z accepts (list Z) hadd Z value cvalue compilable (abs Z Z (list Z) Z i) ops) in
      (if list_eqb_z model obs then 0 else 1) + (if list_eqb_z spec obs then 0 else 2)
  end
with_list_eqb.
'''
HEADER = HEADER.replace('''Definition opZ := op Z Z Z.''', '''Definition list_eqb_z (a b : list Z) : bool :=
  (length a =? length b)%nat && forallb (fun p => fst p =? snd p) (combine a b).
Definition opZ := op Z Z Z.''').replace('\nwith_list_eqb.', '.')

OPS = ['setp:P1', 'setp:P2', 'setp:PW', 'setp:PBAD', 'setp:PH', 'setv:default', 'setv:accept', 'setv:reject', 'setv:exit',
       'helper:1:mix', 'helper:1:clobber', 'calc:64', 'jit', 'cl', 'x', 'xj', 'xc']


def op_line(o, shared=False):
    k = o.split(':')
    if k[0] == 'setp':
        return 'setp:' + ('@' if shared else '') + PROGS[k[1]].hex()
    return o


def op_term(o):
    k = o.split(':')
    if k[0] == 'setp':
        return '(OSetProgram Z Z Z %d)' % PCODE[k[1]]
    if k[0] == 'setv':
        return '(OSetVerifier Z Z Z %d)' % VCODE[k[1]]
    if k[0] == 'helper':
        return '(ORegisterHelper Z Z Z %s)' % (k[1] if k[2] == 'mix' else '1001')
    if k[0] == 'calc':
        return '(OSetCalc Z Z Z %d)' % int(k[1])
    return {'jit': '(OJitCompile Z Z Z)', 'cl': '(OCraneliftCompile Z Z Z)', 'x': '(OExec Z Z Z)',
            'xj': '(OExecJit Z Z Z)', 'xc': '(OExecCranelift Z Z Z)'}[k[0]]


def obs_code(o, tok):
    if tok == 'ok':
        return 0
    if tok.startswith('ok:'):
        return 100 + int(tok[3:], 16)
    kind = tok.split(':', 1)[1] if ':' in tok else tok
    if o in ('jit', 'cl') and kind != 'no_program':
        return 4
    return {'verifier': 1, 'no_program': 2, 'not_compiled': 3, 'unknown_helper': 5}.get(kind, 99)


def run(chk):
    res = vlib.prove(chk, ['ApiFx'], ['theories/VmApi.vo', 'theories/ApiFx.vo', 'gen/ApiFx.vo'], 'C10', ['theories/VmApi.v', 'theories/ApiFxProofs.v'])
    found = False
    if res['model_ok']:
        binary = vlib.harness_build('debug')
        rng = vlib.Rng(chk.seed).fork('C10')
        thorough = chk.tier == 'thorough'
        hists = []
        inits = ['none', 'P1', 'PW', 'PH']
        # all histories of length <= 2 over the alphabet, from every initial program
        for init in inits:
            for n in ((1, 2, 3, 4) if thorough else (1, 2)):
                for h in itertools.product(OPS, repeat=n):
                    hists.append((init, list(h)))
        # random longer histories
        for _ in range(20000 if thorough else 1200):
            n = 3 + rng.below(10)
            hists.append((rng.choice(inits), [rng.choice(OPS) for _ in range(n)]))
        # histories in which the answer depends on the frame-size table: interpreter only (Cranelift refuses local calls, the JIT's
        # frames are known finding D18), every history of length <= 4 over this alphabet and random longer ones
        CALC_OPS = ['setp:P1', 'setp:PC', 'setp:PD', 'calc:64', 'calc:16', 'x']
        for init in ('none', 'PC', 'P1'):
            for n in ((1, 2, 3, 4, 5) if thorough else (1, 2, 3, 4)):
                for h in itertools.product(CALC_OPS, repeat=n):
                    if h[-1] == 'x':
                        hists.append((init, list(h)))
        for _ in range(4000 if thorough else 400):
            hists.append((rng.choice(['none', 'PC', 'PD', 'P1']), [rng.choice(CALC_OPS) for _ in range(5 + rng.below(8))]))
        # same-address histories: every program is placed at the start of one buffer (harness `@`), so that a program and the one
        # loaded after it begin at the same address and differ only in length (P1 / P1 followed by dead code); what the VM holds
        # -- compiled code included -- must follow the most recent successful load all the same
        SHARE_OPS = ['setp:P1', 'setp:P1L', 'setp:P2', 'jit', 'cl', 'x', 'xj', 'xc']
        n_plain = len(hists)
        for init in ('none', 'P1', 'P1L'):
            for n in ((1, 2, 3, 4) if thorough else (1, 2, 3)):
                for h in itertools.product(SHARE_OPS, repeat=n):
                    if h[-1] in ('xj', 'xc', 'x') and any(o.startswith('setp') for o in h):
                        hists.append((init, list(h)))
        for _ in range(3000 if thorough else 400):
            hists.append((rng.choice(['none', 'P1', 'P1L']), [rng.choice(SHARE_OPS) for _ in range(4 + rng.below(8))]))
        shared_range = (n_plain, len(hists))
        kinds = ['mbuff', 'raw', 'nodata', 'fixed']
        # directed: compiling again after something changed must pick the change up (helper re-bound, program reloaded), on every kind
        directed = []
        for comp, ex in (('jit', 'xj'), ('cl', 'xc')):
            for a, b in (('mix', 'clobber'), ('clobber', 'mix')):
                directed.append(['setp:PH', 'helper:1:' + a, comp, ex, 'helper:1:' + b, ex, comp, ex, 'x'])
                directed.append(['helper:1:' + a, 'setp:PH', comp, 'helper:1:' + b, comp, ex, 'setp:P2', ex, comp, ex])
            directed.append(['setp:P1', comp, ex, comp, ex, 'setp:P2', comp, comp, ex, 'x'])
            directed.append([comp, 'setp:PH', comp, 'helper:1:mix', comp, ex, comp, ex])
        nd = len(hists)
        for h in directed:
            for kd in kinds:
                hists.append(('none', h))
        lines, metas = [], []
        for k, (init, h) in enumerate(hists):
            shared = shared_range[0] <= k < shared_range[1]
            kind = kinds[k % 4] if len(h) > 2 or shared else 'mbuff'
            newarg = 'none' if init == 'none' else ('@' if shared else '') + PROGS[init].hex()
            lines.append('api %s new:%s;%s' % (kind, newarg, ';'.join(op_line(o, shared) for o in h)))
            metas.append((kind, init, h))
        answers = vlib.harness_run(binary, lines)
        terms, idx = [], []
        for i, ((kind, init, h), a) in enumerate(zip(metas, answers)):
            toks = a.split()
            if not toks or toks[0] not in ('ok', 'err:verifier'):
                found = True
                chk.violation({'kind': 'counterexample', 'request': lines[i], 'answer': a[:200], 'meaning': 'API history crashed the process'})
                continue
            obs = [0 if toks[0] == 'ok' else 1] + [obs_code(o.split(':')[0], t) for o, t in zip(h, toks[1:])]
            terms.append('(%d, [%s], [%s])' % (0 if init == 'none' else PCODE[init], '; '.join(op_term(o) for o in h),
                                                '; '.join(str(x) for x in obs)))
            idx.append(i)
        bad, errors = vlib.coq_eval('C10', HEADER, terms, 'check', shard_size=300)
        if errors:
            raise vlib.Broken('model evaluation failed: ' + errors[0])
        for j, cd in bad:
            i = idx[j]
            found = True
            if len(chk.violations) < 12:
                chk.violation({'kind': 'counterexample', 'request': lines[i], 'history': metas[i][2], 'vm_kind': metas[i][0], 'answer': answers[i][:300],
                               'meaning': ('API answers differ from the specification (most recently loaded program / failed call is a no-op / '
                                           'errors for missing program or compilation)' if cd >= 2 else 'model differs from implementation (tie B broken)')},
                              no_input=(cd == 1))
        # fixed-metadata VM: a failed set_program must not disturb the configured offsets / buffer
        p40 = B.ldx('dw', 2, 1, 0x40) + B.ldx('dw', 3, 1, 0x48) + B.movr(0, 3) + B.alu('sub', 0, src=2) + B.EXIT
        for eng_compile, eng_run in (('', 'x'), ('jit;', 'xj'), ('cl;', 'xc')):
            line = 'api fixed new:%s,64,72;%s%s;setp:%s,0,8;%s' % (p40.hex(), eng_compile, eng_run, PBAD.hex(), eng_run)
            a = vlib.harness_run(binary, [line])[0].split()
            want_tail = [a[-3], 'err:verifier', a[-3]] if len(a) >= 3 else None
            if len(a) < 3 or a[-3] != 'ok:10' or a[-2] != 'err:verifier' or a[-1] != 'ok:10':
                found = True
                chk.violation({'kind': 'counterexample', 'request': line, 'answer': ' '.join(a), 'vm_kind': 'fixed',
                               'meaning': 'a set_program call that failed changed the behaviour of the fixed-metadata VM'})
        # fixed-metadata VM: after a successful set_program (new offsets, hence a new buffer) the VM answers as a VM created with that
        # program and those offsets does -- nothing of the old buffer (the pointers the VM wrote there for an earlier packet, at the
        # old offsets) is visible to the new program
        def rd(k):
            return B.ldx('dw', 0, 1, k) + B.EXIT
        reloads = []
        for eng_compile, eng_run in (('', 'x'), ('jit;', 'xj'), ('cl;', 'xc')):
            for (od, oe), (nd_, ne), ks in (((0, 8), (16, 24), (0, 8)), ((8, 16), (24, 32), (8, 16, 0)), ((0, 8), (8, 16), (0,)),
                                           ((16, 24), (32, 40), (16, 24, 0, 8)), ((8, 0), (16, 24), (0, 8))):
                for k in ks:
                    fresh = 'api fixed new:%s,%d,%d;%s%s' % (rd(k).hex(), nd_, ne, eng_compile, eng_run)
                    for first in (rd(k), P1):
                        reloads.append(('api fixed new:%s,%d,%d;%s%s;setp:%s,%d,%d;%s%s' % (first.hex(), od, oe, eng_compile, eng_run, rd(k).hex(), nd_, ne,
                                                                                           eng_compile, eng_run), fresh))
        ra = vlib.harness_run(binary, [l for l, _ in reloads])
        rf = vlib.harness_run(binary, [f for _, f in reloads])
        for (line, fresh), a, f in zip(reloads, ra, rf):
            if not a.split() or not f.split() or a.split()[-1] != f.split()[-1] or not f.split()[-1].startswith('ok:'):
                found = True
                if len(chk.violations) < 12:
                    chk.violation({'kind': 'counterexample', 'request': line, 'answer': a[:300], 'fresh_vm_request': fresh, 'fresh_vm_answer': f[:200],
                                   'vm_kind': 'fixed',
                                   'meaning': 'after a successful set_program the fixed-metadata VM does not answer as a VM created with that program '
                                              'and those offsets: the result depends on an earlier execution'})
        # the stack-usage table follows the program: a program whose result is the frame size of a function that exists only in it
        # (main -> f1 -> f2, f2 returns f1's frame size) must see the calculator in force when it is loaded, whatever was loaded before
        PC = B.callx(1) + B.EXIT + B.movr(6, 10) + B.callx(1) + B.EXIT + B.movr(0, 6) + B.alu('sub', 0, src=10) + B.EXIT
        PD = B.mov(0, 0) + B.callx(1) + B.EXIT + B.movr(6, 10) + B.callx(1) + B.EXIT + B.movr(0, 6) + B.alu('sub', 0, src=10) + B.EXIT
        su = []
        for kd in kinds:
            su.append(('api %s new:%s;calc:64;setp:%s;x' % (kd, P1.hex(), PC.hex()), ['ok:40']))
            su.append(('api %s new:none;setp:%s;calc:64;setp:%s;x;setp:%s;x' % (kd, P1.hex(), PC.hex(), PD.hex()), ['ok:40', 'ok', 'ok:40']))
            su.append(('api %s new:%s;x;calc:64;x;setp:%s;x;setp:%s;x;setp:%s;x' % (kd, PC.hex(), P1.hex(), PD.hex(), PC.hex()),
                       ['ok:100', 'ok', 'ok:40', 'ok', 'ok:1', 'ok', 'ok:40', 'ok', 'ok:40']))
            su.append(('api %s new:%s;setp:%s;x;setp:%s;x' % (kd, PD.hex(), PC.hex(), PD.hex()), ['ok:100', 'ok', 'ok:100']))
        for (line, tail), a in zip(su, vlib.harness_run(binary, [l for l, _ in su])):
            toks = a.split()
            if toks[-len(tail):] != tail:
                found = True
                if len(chk.violations) < 12:
                    chk.violation({'kind': 'counterexample', 'request': line, 'answer': a[:300], 'expected_tail': ' '.join(tail),
                                   'meaning': 'the frame sizes used for a program depend on a program loaded earlier (the stack-usage table must be '
                                              'recomputed for each loaded program with the calculator in force)'})
        chk.cov['evaluations'] = len(lines) + 3 + len(su) + 2 * len(reloads)
        chk.cov['distinct_nontrivial'] = len({l for l in lines})
        chk.cov['rule'] = ('all histories of length <= %d over' % (4 if thorough else 2) + ' a 17-operation alphabet from 4 initial programs (exhaustive), plus seeded random '
                           'histories of length 3..12 over the 4 VM kinds; verifier menu {default, accept-all, reject-all, ends-in-exit}, program menu '
                           '{valid x2, valid only for other verifiers x2, needs a helper}; calculator / reload histories; same-address histories (programs of one '
                           'history placed at the start of one buffer); every answer of every call is compared; distinct = distinct history')
        chk.cov['input_distribution'] = {'histories': len(lines), 'exhaustive_up_to_length': 4 if thorough else 2}
        chk.cov['samples'] = [{'request': lines[i][:300], 'answer': answers[i][:120]} for i in (5, 1000, len(lines) - 1)]
    vlib.report_broken(chk, res, found)
    chk.cov['trusted_base'] = ['Coq 8.16.1 kernel + vm_compute', 'no axioms', 'theories/VmApi.v is a hand-written model of lib.rs: tie is the history correspondence only (tie B)',
                               'harness/ api command']
    chk.assumptions = ['programs and verifiers are abstract in the theorem (any accepts/value functions); the correspondence instantiates them with a 5-program, 4-verifier menu']
    chk.cov['explanation'] = 'C10_refinement: implementation state machine = abstract VM for every history; corollaries: failed call is a no-op, loaded program verified, executions pure'
