"""C02 -- the interpreter confines every load and store to the program's own memory."""
import vlib
from checks import ebpf as B
from checks.interp_common import Case, run_cases
from checks import C01

ARENA_MEM, ARENA_MBUFF, ARENA_X = 0, 1, 2


def access_programs(sz):
    """(name, builder(addr_reg_setup) ) for every access instruction of width sz; the address is in r6"""
    n = B.SIZE_BYTES[sz]
    progs = [('ldx', B.ldx(sz, 0, 6, 0) + B.EXIT),
             ('st', B.st(sz, 6, 0, 0x5a5a5a5a) + B.mov(0, 0) + B.EXIT),
             ('stx', B.load_const(3, 0x1122334455667788) + B.stx(sz, 6, 3, 0) + B.mov(0, 0) + B.EXIT)]
    if sz in ('w', 'dw'):
        progs.append(('xadd', B.load_const(3, 0x0101010101010101) + B.xadd(sz, 6, 3, 0) + B.mov(0, 0) + B.EXIT))
    return progs


def gen_cases(chk):
    rng = vlib.Rng(chk.seed).fork('C02')
    thorough = chk.tier == 'thorough'
    cases = []
    pk = bytes(range(0x10, 0x10 + 32))
    mb = bytes(range(0x60, 0x60 + 16))
    xm = bytes(range(0xa0, 0xa0 + 48))
    # layouts: (mem, mbuff, xmem, ranges)
    layouts = [(pk, mb, xm, [(8, 16)]), (pk, b'', b'', []), (b'', b'', b'', []), (pk, mb, xm, [(0, 8), (8, 8), (32, 16)]),
               (b'', mb, xm, [(4, 8), (8, 8)])]
    deltas = list(range(-9, 10))
    for li, (mem, mbuff, xmem, ranges) in enumerate(layouts):
        for sz in ('b', 'h', 'w', 'dw'):
            for name, body in access_programs(sz):
                # region-relative addresses: r1 = mbuff or mem at entry; stack via r10; registered range via lddw of its address
                targets = []
                if mem or mbuff:
                    ln = len(mbuff) if mbuff else len(mem)
                    targets += [('r1', B.movr(6, 1), d) for d in deltas] + [('r1', B.movr(6, 1), ln + d) for d in deltas]
                targets += [('stack', B.movr(6, 10), -512 + d) for d in deltas] + [('stack', B.movr(6, 10), d) for d in deltas]
                for (o, l) in ranges:
                    targets += [('range', None, o + d) for d in deltas] + [('range', None, o + l + d) for d in deltas]
                for (reg, setup, d) in targets:
                    if not thorough and rng.chance(1, 2) and abs(d) not in (0, 1, 8) and li > 0:
                        continue
                    if reg == 'range':
                        # absolute address of xmem + d: the harness places xmem at a fixed address
                        XBASE = 0x600000a00000 + 4096 * ((len(xmem) + 4095) // 4096) - len(xmem)
                        setup = B.lddw(6, XBASE + d)
                        pre = setup
                    else:
                        pre = setup + B.alu('add', 6, imm=d)
                    cases.append(Case(pre + body, mem=mem, mbuff=mbuff, xmem=xmem, ranges=ranges,
                                      fam='%s:%s:%s' % (name, sz, reg)))
        # absolute / indirect packet loads around both ends of the packet
        for sz in ('b', 'h', 'w', 'dw'):
            for d in list(range(0, 10)) + [len(mem) + x for x in range(-9, 3)] + [0x7fffffff, -1]:
                cases.append(Case(B.ldabs(sz, d) + B.EXIT, mem=mem, mbuff=mbuff, xmem=xmem, ranges=ranges, fam='ldabs:' + sz))
                cases.append(Case(B.mov(4, 3) + B.ldind(sz, 4, d - 3) + B.EXIT, mem=mem, mbuff=mbuff, xmem=xmem, ranges=ranges, fam='ldind:' + sz))
            cases.append(Case(B.lddw(4, 2 ** 64 - 1) + B.ldind(sz, 4, 1) + B.EXIT, mem=mem, mbuff=mbuff, fam='ldind:' + sz))
    # null, wrap-around and top-of-address-space addresses
    for sz in ('b', 'h', 'w', 'dw'):
        for name, body in access_programs(sz):
            for a in (0, 1, 7, 8, 2 ** 64 - 1, 2 ** 64 - 8, 2 ** 64 - 9, 2 ** 63, 2 ** 32):
                cases.append(Case(B.lddw(6, a) + body, mem=pk, mbuff=mb, fam='%s:%s:abs' % (name, sz)))
    # misaligned atomic adds inside a region
    for sz, k in (('w', 4), ('dw', 8)):
        for d in range(0, 9):
            cases.append(Case(B.movr(6, 1) + B.alu('add', 6, imm=d) + B.load_const(3, 1) + B.xadd(sz, 6, 3, 0) + B.mov(0, 0) + B.EXIT,
                              mem=bytes(32), fam='xadd-align:' + sz))
    return cases


def run(chk):
    res = vlib.prove(chk, C01.UNITS, C01.MODELS, 'C02', C01.PROOFS + ['theories/MemLemmas.v', 'theories/InterpArmsMem.v'])
    found = False
    if res['model_ok']:
        binary = vlib.harness_build('debug')
        cases = gen_cases(chk)
        answers, bad, skipped = run_cases(chk, 'C02', cases, binary)
        outs, fams = {}, {}
        for c, a in zip(cases, answers):
            k = a['raw'].split()[0]
            k = k if k.startswith('ERR') or k.startswith('PANIC') else k.split(':')[0]
            outs[k] = outs.get(k, 0) + 1
            f = c.fam.split(':')[0]
            fams[f] = fams.get(f, 0) + 1
        chk.cov['evaluations'] = len(cases)
        chk.cov['distinct_nontrivial'] = len({(c.prog, c.mem, c.mbuff, c.xmem, tuple(c.ranges)) for c in cases})
        chk.cov['rule'] = ('every access instruction (ldx/st/stx/xadd/ldabs/ldind) x width x effective address within 9 bytes of both ends of '
                           'packet, metadata buffer, stack and registered ranges (adjacent and separate), null / wrapped / top addresses, '
                           'five layouts incl. empty packet and no metadata; buffers sit against guard pages with canaries; every case is '
                           'non-trivial (it performs or refuses one access); distinct = distinct (program, buffers, ranges)')
        chk.cov['input_distribution'] = {'implementation_outcomes': outs, 'families': fams, 'not_compared': len(skipped)}
        chk.cov['samples'] = [{'request': cases[i].line()[:300], 'implementation': answers[i]['raw'][:200]} for i in (0, 2000, len(cases) - 1)]
        for c, a in zip(cases, answers):
            dmg = a.get('dmg', '0')
            if (a['status'] in (2, 9) or dmg != '0') and len(chk.violations) < 12:
                found = True
                chk.violation({'kind': 'counterexample', 'request': c.line(), 'implementation_answer': a['raw'][:300], 'family': c.fam,
                               'meaning': 'panic / fault / write outside the buffer (canary damage) on a memory access'})
        for i, cd in bad:
            found = True
            if len(chk.violations) < 12:
                c = cases[i]
                chk.violation({'kind': 'counterexample', 'request': c.line(), 'implementation_answer': answers[i]['raw'][:300], 'family': c.fam,
                               'meaning': ('access carried out / refused contrary to the region-containment specification' if cd >= 2 else
                                           'model differs from implementation (tie B broken)')}, no_input=(cd == 1))
    vlib.report_broken(chk, res, found)
    chk.cov['trusted_base'] = ['Coq 8.16.1 kernel + vm_compute', 'no axioms', 'translator tools/rs2v (unit Interp incl. check_mem)',
                               'memory model theories/Mem.v (regions with concrete bases)', 'harness/ with guard pages and canaries']
    chk.assumptions = ['usize is 64-bit', 'regions below 2^63', 'the raw pointer read/write after a passed check touches exactly the checked bytes (validated by guard pages, not proved)']
    chk.cov['explanation'] = 'C02 theorems: regenerated check_mem <-> containment; access arms = ISA arms; store frame lemma; correspondence on the address grid'
