"""C20 -- behaviour is the same with and without the standard library."""
import os
import re
import sys
import vlib
from checks import ebpf as B
from checks import C01, C06

sys.path.insert(0, os.path.join(vlib.VERIF, 'tools', 'rs2v'))

# (file, function) regions the Coq models are regenerated from: they must not contain code selected by
# the `std` feature, so that the theorems over the regenerated models speak about both builds
MODELLED = [('ebpf.rs', 'get_insn'), ('ebpf.rs', 'to_array'), ('ebpf.rs', 'to_vec'),
            ('verifier.rs', 'check'), ('verifier.rs', 'check_prog_len'), ('verifier.rs', 'check_imm_endian'),
            ('verifier.rs', 'check_load_dw'), ('verifier.rs', 'check_jmp_offset'), ('verifier.rs', 'check_registers'),
            ('interpreter.rs', 'check_mem'), ('interpreter.rs', 'execute_program'),
            ('helpers.rs', 'gather_bytes'), ('stack.rs', 'stack_validate')]


def std_cfg_in_models():
    import rsparse as R
    hits = []
    for f, fn in MODELLED:
        toks = R.tokenize(open(os.path.join(vlib.REPO, 'src', f)).read())
        try:
            sig, body = R.fn_body_tokens(toks, fn)
        except R.Unsupported:
            hits.append('%s::%s not found' % (f, fn))
            continue
        txt = R.token_text(body)
        if re.search(r'feature\s*=\s*"std"', txt):
            hits.append('%s::%s contains code selected by feature "std"' % (f, fn))
    return hits


def run(chk):
    res = vlib.prove(chk, ['Opcodes', 'Codec', 'Verifier', 'Interp', 'JitMem', 'LibWrap', 'ApiFx'], ['theories/Verifier.vo', 'theories/Interp.vo', 'gen/JitMem.vo', 'gen/LibWrap.vo', 'gen/ApiFx.vo'], 'C20',
                     ['theories/JitMemProofs.v', 'theories/ApiFxProofs.v'])
    found = False
    if res['model_ok']:
        hits = std_cfg_in_models()
        chk.cov['std_dependent_code_in_modelled_regions'] = hits
        if hits:
            found = True
            chk.violation({'kind': 'broken-obligation', 'obligation': 'models are independent of the std feature', 'detail': '; '.join(hits)},
                          no_input=True)
        b_std = vlib.harness_build('debug')
        b_no = vlib.harness_build('debug', nostd=True)
        rng = vlib.Rng(chk.seed).fork('C20')
        lines = []
        # verifier corpus (C06) and disassembler on the same byte strings
        progs = [p for _, p in C06.gen_cases(chk)]
        progs = progs[::6] if chk.tier != 'thorough' else progs
        for p in progs:
            if p:
                lines.append('verify %s' % p.hex())
                if len(p) % 8 == 0:
                    lines.append('disasm %s' % p.hex())
        # interpreter and JIT corpus (C01)
        cases = C01.gen_cases(chk)
        cases = cases[::3] if chk.tier != 'thorough' else cases
        for c in cases:
            lines.append(c.line(engine='interp'))
        jit_lines = [c.line(engine='jit', kind='raw') for c in cases if not any(c.prog[k] in (0x61, 0x69, 0x71, 0x79) and False for k in range(0, len(c.prog), 8))]
        # every VM kind under the JIT and the interpreter: the context probes of C09 (the metadata buffer is read and compared afterwards)
        from checks import C09
        from checks.interp_common import Case
        for kind in ('mbuff', 'raw', 'nodata'):
            for ln in (0, 8, 64):
                pk = bytes((3 * i + 5) & 255 for i in range(ln))
                for name, prog in C09.probes():
                    if name.startswith('mbuff-') and kind != 'mbuff':
                        continue
                    if name in ('r1', 'others-zero-or-unspecified'):
                        continue
                    c = Case(prog, mem=pk, mbuff=bytes(range(16)) if kind == 'mbuff' else b'', fam=name)
                    if kind == 'nodata' or (ln == 0 and name.startswith('ld')):
                        lines.append(c.line(engine='interp', kind=kind))
                    else:
                        jit_lines.append(c.line(engine='jit', kind=kind))
        for (d, e) in ((0, 8), (0x40, 0x50), (24, 8)):
            for ln in (8, 64):
                pk = bytes((7 * i + 1) & 255 for i in range(ln))
                for name, prog in C09.fixed_probes(d, e):
                    if name == 'fixed-start':
                        continue
                    jit_lines.append(Case(prog, mem=pk, fam=name).line(engine='jit', kind='fixed') + ' d=%d e=%d reps=1' % (d, e))
        # code larger than one, two and three pages, with the caller-supplied executable memory starting on each page parity
        for n in (700, 1500, 2600):
            for xoff in (0, 1, 2, 3):
                p = B.mov(0, 0) + B.alu('add', 0, imm=1) * n + B.EXIT
                jit_lines.append(Case(p, fam='big-code').line(engine='jit', kind='raw') + ' xoff=%d' % xoff)
        # assembler: texts obtained from the disassembler of valid programs, and mangled variants
        dis = vlib.harness_run(b_std, ['disasm %s' % c.prog.hex() for c in cases[:400]])
        texts = []
        for d in dis:
            if d.startswith('OK'):
                descs = [bytes.fromhex(x.split()[-1]).decode('utf-8', 'replace') for x in d.split(' | ')[1:]]
                texts.append('\n'.join(descs))
        for t in list(texts):
            if rng.chance(1, 2) and t:
                k = rng.below(len(t))
                texts.append(t[:k] + rng.choice(['', 'x', '0x', '-', '[', ' 99999999999999999999 ', 'r11']) + t[k + 1:])
        texts += ['', 'exit', 'mov r0, 0x1\nexit', 'lddw r1, 0xffffffffffffffff', 'ja +0x7fff', 'bogus r1', 'add64 r1', 'ldxw r1, [r2+0x8000]']
        # characters that an embedded (no_std) caller's buffers may carry: NUL padding, other control characters, a byte-order mark,
        # non-ASCII letters and spaces -- at the end, at the start and inside otherwise valid texts
        for junk in ('\0', '\0\0\0', '\x01', '\x7f', '\ufeff', '\u00e9', '\u3000', '\r', '\t', '\x0b', '\x0c', '\u2028'):
            for base in ('exit', 'mov r0, 1\nexit\n', 'lddw r1, 0x10'):
                texts += [base + junk, junk + base, base[:3] + junk + base[3:]]
            texts.append(junk)
        for t in texts:
            lines.append('asm %s' % (t.encode().hex() or '-'))
        # API histories: the C10 alphabet (every `jit` supplies fresh executable memory), and histories in which the memory is
        # handed over separately (`setx`) exactly when the previous jit_compile can have used it up: a call refused because no
        # program is loaded must leave it in place
        from checks import C10
        kinds4 = ['mbuff', 'raw', 'nodata', 'fixed']
        for k in range(800 if chk.tier == 'thorough' else 200):
            init = rng.choice(['none', 'P1', 'PW', 'PH'])
            h = [rng.choice(C10.OPS) for _ in range(2 + rng.below(9))]
            h = [o for o in h if o not in ('cl', 'xc')]
            newarg = 'none' if init == 'none' else C10.PROGS[init].hex()
            lines.append('api %s new:%s;%s' % (kinds4[k % 4], newarg, ';'.join(C10.op_line(o) for o in h)))
        for k in range(800 if chk.tier == 'thorough' else 200):
            loaded = False                  # the VM is created without a program
            ops = []
            have_mem = False
            for _ in range(3 + rng.below(8)):
                o = rng.choice(['setp:P1', 'setp:PBAD', 'jitx', 'jitx', 'x', 'xj'])
                if rng.chance(1, 4):
                    # memory handed over early (for a later compilation), also when the VM still holds some: code already
                    # compiled must keep running from where it is
                    ops.append('setx')
                    have_mem = True
                if o == 'jitx':
                    if not have_mem:
                        ops.append('setx')
                        have_mem = True
                    ops.append('jitx')
                    if loaded:
                        have_mem = False          # the compiler took it
                else:
                    ops.append(C10.op_line(o))
                    if o == 'setp:P1':
                        loaded = True
            lines.append('api %s new:none;%s' % (kinds4[k % 4], ';'.join(ops)))
        # compiling again after something changed must pick the change up in both builds (a helper re-bound under the same id, a
        # program reloaded): the machine code holds helper addresses
        for a, b in (('mix', 'clobber'), ('clobber', 'mix')):
            for h in (['setp:PH', 'helper:1:' + a, 'jit', 'xj', 'helper:1:' + b, 'xj', 'jit', 'xj', 'x'],
                      ['helper:1:' + a, 'setp:PH', 'jit', 'helper:1:' + b, 'jit', 'xj', 'setp:P2', 'xj', 'jit', 'xj'],
                      ['setp:PH', 'helper:1:' + a, 'setx', 'jitx', 'xj', 'helper:1:' + b, 'setx', 'jitx', 'xj'],
                      ['setp:PH', 'helper:1:' + a, 'setx', 'jitx', 'xj', 'setx', 'xj', 'helper:1:' + b, 'xj', 'jitx', 'xj', 'setx', 'setx', 'xj'],
                      ['setp:P1', 'jit', 'xj', 'jit', 'xj', 'setp:P2', 'jit', 'jit', 'xj', 'x']):
                for kd in kinds4:
                    lines.append('api %s new:none;%s' % (kd, ';'.join(C10.op_line(o) for o in h)))
        # caller-supplied memory that is too short for the code: the no_std build must answer with an error, not crash
        short_lines = []
        for n in (700, 1500, 2600):
            p = B.mov(0, 0) + B.alu('add', 0, imm=1) * n + B.EXIT
            for xlen in (4096, 8192, 1024, 1):
                for kind in ('raw', 'nodata', 'mbuff', 'fixed'):
                    short_lines.append(Case(p, fam='short-memory').line(engine='jit', kind=kind) + ' xlen=%d' % xlen)
        # ... and memory that is long enough for the code although shorter than the bytecode (x86-64 code can be much denser than
        # eBPF: 3 bytes for a register-register ALU instruction, 10 for a wide load of 16): the no_std build must compile and run as
        # the default build does
        fit_lines = []
        for body, xlen in ((B.alu('add', 0, src=1) * 600, 4096), (B.alu('add', 0, src=1) * 1300, 4096), (B.alu('xor', 2, src=3, w=32) * 2500, 8192),
                           (B.lddw(3, 0x1122334455667788) * 1000, 12288), (B.lddw(3, 5) * 700, 8192)):
            p = B.mov(0, 0) + B.mov(1, 1) + body + B.EXIT
            for kind in ('raw', 'nodata', 'mbuff', 'fixed'):
                fit_lines.append(Case(p, fam='fitting-memory').line(engine='jit', kind=kind) + ' xlen=%d' % xlen)
        f_no = vlib.harness_run(b_no, fit_lines)
        f_std = vlib.harness_run(b_std, fit_lines)
        for l, x, y in zip(fit_lines, f_no, f_std):
            if re.sub(r' L=\S+', '', x) != re.sub(r' L=\S+', '', y) or not y.startswith('OK:'):
                found = True
                if len(chk.violations) < 12:
                    chk.violation({'kind': 'counterexample', 'request': l if len(l) <= 60000 else l[:2000] + ' ... ' + l[-200:],
                                   'no_std_answer': x[:300], 'std_answer': y[:300],
                                   'meaning': 'caller-supplied executable memory that is page-aligned and at least as long as the machine code (rounded up '
                                              'to pages) must be accepted by the no_std build, whatever the length of the bytecode'})
        s_no = vlib.harness_run(b_no, short_lines)
        s_std = vlib.harness_run(b_std, short_lines)
        for l, x, y in zip(short_lines, s_no, s_std):
            ok_no = x.startswith('ERR:compile') or x == y
            if not ok_no:
                found = True
                if len(chk.violations) < 12:
                    chk.violation({'kind': 'counterexample', 'request': l if len(l) <= 60000 else l[:2000] + ' ... ' + l[-200:],
                                   'no_std_answer': x[:300], 'std_answer': y[:300],
                                   'meaning': 'with executable memory shorter than the code the no_std build must refuse (error), or answer as the default build when it fits'})
        a_std = vlib.harness_run(b_std, lines)
        a_no = vlib.harness_run(b_no, lines)
        j_std = vlib.harness_run(b_std, jit_lines)
        j_no = vlib.harness_run(b_no, jit_lines)

        def canon(x):
            # the stack address of the interpreter (heap) differs between processes: drop the layout
            return re.sub(r' L=\S+', '', x)
        kinds = {}
        # JIT cases take part only where the result is defined (std JIT = std interpreter): programs reading
        # never-written stack bytes see the native stack under the JIT, which is outside the claim
        i_std = vlib.harness_run(b_std, [l.replace('engine=jit', 'engine=interp') for l in jit_lines])
        strip = lambda z: re.sub(r' (L|dmg|hc|hlog)=\S+', '', z)  # noqa: E731
        jit_defined = [(l, x, y) for l, x, y, z in zip(jit_lines, j_std, j_no, i_std) if strip(x) == strip(z)]
        chk.cov['jit_cases_defined'] = len(jit_defined)
        for l, x, y in list(zip(lines, a_std, a_no)) + jit_defined:
            k = l.split()[0] + (':jit' if 'engine=jit' in l else '')
            kinds[k] = kinds.get(k, 0) + 1
            if canon(x) != canon(y):
                found = True
                if len(chk.violations) < 12:
                    chk.violation({'kind': 'counterexample', 'request': l if len(l) <= 60000 else l[:2000] + ' ... ' + l[-200:], 'std_answer': x[:300], 'no_std_answer': y[:300],
                                   'meaning': 'the no_std build answers differently from the default build'})
        chk.cov['evaluations'] = len(lines) + len(jit_lines)
        chk.cov['distinct_nontrivial'] = len(set(lines)) + len(set(jit_lines))
        chk.cov['rule'] = ('the same request lines (verifier corpus of C06, interpreter and JIT corpus of C01, disassembly of both, assembler texts '
                           'from disassembled programs plus mangled variants) sent to two builds of the harness -- default features and '
                           '--no-default-features (JIT from caller-supplied executable memory); transcripts compared line by line; all non-trivial')
        chk.cov['input_distribution'] = kinds
        chk.cov['samples'] = [{'request': lines[i][:200], 'std': a_std[i][:100], 'no_std': a_no[i][:100]} for i in (0, len(lines) // 2, len(lines) - 1)]
    vlib.report_broken(chk, res, found)
    chk.cov['trusted_base'] = ['two builds of the real crate compared differentially', 'translator regions checked to contain no std-selected code',
                               'cargo feature resolution', 'harness/ (itself always built with std)']
    chk.assumptions = ['helpers that exist only with std (sqrti, rand, bpf_trace_printf, bpf_time_getns) are outside the comparison']
    chk.cov['explanation'] = ('The Coq models (C01, C02, C05, C06, C17 ...) are regenerated from source regions that contain no `feature = "std"` selection '
                              '(checked on every run), so their theorems hold for both builds; what differs by cfg (error type, parser entry point, JIT memory) '
                              'is compared by running both builds on the corpora of C01/C03/C06/C13-C15 and requiring identical transcripts. '
                              'No separate Coq theorem: the property is about build configurations, which the models do not have.')
