"""C19 -- the built-in helpers compute their documented functions for all arguments."""
import math
import vlib
from vlib import zhex
from checks import ebpf as B

HEADER = '''From Coq Require Import ZArith List Bool.
From RbpfV Require Import MachInt Cases HelperSpec Sqrt64.
From RbpfV.gen Require Import Helpers.
Import ListNotations.
Open Scope Z_scope.
Inductive hcase :=
| HGather (a1 a2 a3 a4 a5 r : Z)
| HPrintf (a3 a4 a5 r printed : Z)
| HFrob (buf : list Z) (n : Z) (after : list Z)
| HStrcmp (a b : list Z) (r : Z)
| HSqrt (x r : Z).
Definition okz (r : res Z) (v : Z) : bool := match r with Ok x => x =? v | _ => false end.
Definition check (c : hcase) : Z :=
  match c with
  | HGather a1 a2 a3 a4 a5 r =>
      (if okz (gen_gather_bytes a1 a2 a3 a4 a5) r then 0 else 1) + (if gather_spec a1 a2 a3 a4 a5 =? r then 0 else 2)
  | HPrintf a3 a4 a5 r printed =>
      (if okz (gen_trace_printf_ret a3 a4 a5) r then 0 else 1)
      + (if (29 + hexlen a3 + hexlen a4 + hexlen a5 =? r) && (r =? printed) then 0 else 2)
  | HFrob buf n after =>
      let k := Z.to_nat n in
      if list_eqb (memfrob_bytes (firstn k buf) ++ skipn k buf) after then 0 else 3
  | HStrcmp a b r => if strcmp_model a b =? r then 0 else 3
  | HSqrt x r => (if sqrti_model x =? r then 0 else 1) + (if (x <? 2 ^ 52) && negb (Z.sqrt x =? r) then 2 else 0)
  end.
'''


def run(chk):
    res = vlib.prove(chk, ['Helpers'], ['theories/Cases.vo', 'theories/HelperSpec.vo', 'theories/Sqrt64.vo'], 'C19',
                     ['theories/HelperProofs.v', 'theories/ArmVals.v', 'theories/BitLemmas.v'],
                     allow_axioms=('ClassicalDedekindReals.sig_forall_dec', 'ClassicalDedekindReals.sig_not_dec',
                                   'FunctionalExtensionality.functional_extensionality_dep', 'Classical_Prop.classic'))
    found = False
    if res['model_ok']:
        binary = vlib.harness_build('debug')
        rng = vlib.Rng(chk.seed).fork('C19')
        thorough = chk.tier == 'thorough'
        reqs = []   # (line, builder(answer) -> term or None, kind)
        G = B.B64
        for _ in range(4000 if thorough else 120):
            a = [rng.choice(G) if rng.chance(2, 3) else rng.next() for _ in range(5)]
            reqs.append(('helper gather_bytes %d %d %d %d %d' % tuple(a),
                         (lambda ans, a=a: '(HGather %d %d %d %d %d %d)' % (tuple(a) + (int(ans.split()[1], 16),))), 'gather'))
        hexb = sorted({v for k in range(0, 17) for v in (16 ** k - 1, 16 ** k, 16 ** k + 1) if 0 <= v < 2 ** 64} | {2 ** 64 - 1, 0})
        for _ in range(3000 if thorough else 100):
            a = [rng.choice(hexb) if rng.chance(3, 4) else rng.next() for _ in range(3)]

            def mk(ans, a=a):
                t = ans.split()
                return '(HPrintf %d %d %d %d %d)' % (a[0], a[1], a[2], int(t[1], 16), int(t[2].split('=')[1]))
            reqs.append(('helper bpf_trace_printf 0 0 %d %d %d' % tuple(a), mk, 'printf'))
        for ln in list(range(0, 66)) + [200, 1000]:
            for n in sorted(v for v in {0, 1, ln // 2, max(0, ln - 1), ln} if v <= ln):
                buf = bytes(rng.below(256) for _ in range(ln))

                def mk(ans, buf=buf, n=n):
                    t = ans.split()
                    after = bytes.fromhex(t[2]) if t[2] != '-' else b''
                    return '(HFrob %s %d %s)' % (zhex(buf), n, zhex(after))
                reqs.append(('helper memfrob @1 %d 0 0 0 %s' % (n, buf.hex() if buf else '-'), mk, 'memfrob'))
        words = [b'', b'a', b'ab', b'abc', b'abd', b'ab\xff', b'\x01', b'\xff\xfe', b'zzzzzzzzzzzzzzzzzzzzzzzzzzzzzzzzzzzzz', b'abc\x00def']
        for x in words:
            for y in words:
                a, b = x + b'\x00', y + b'\x00' + b'junk'

                def mk(ans, a=a, b=b):
                    return '(HStrcmp %s %s %d)' % (zhex(a), zhex(b), int(ans.split()[1], 16))
                reqs.append(('helper strcmp @1 @2 0 0 0 %s %s' % (a.hex(), b.hex()), mk, 'strcmp'))
        xs = set()
        for k in list(range(0, 40)) + [2 ** 16 - 1, 2 ** 16, 2 ** 26 - 1, 2 ** 26, 2 ** 26 + 1, 94906265, 94906266, 2 ** 31, 2 ** 32 - 1]:
            for d in (-1, 0, 1):
                xs.add(k * k + d)
        for e in range(0, 65):
            for d in (-2, -1, 0, 1, 2):
                xs.add(2 ** e + d)
        for _ in range(6000 if thorough else 150):
            k = rng.below(2 ** 26)
            xs.update({k * k, k * k - 1, k * k + 1, rng.below(2 ** 52), rng.next()})
        for x in sorted(v for v in xs if 0 <= v < 2 ** 64):
            reqs.append(('helper sqrti %d 0 0 0 0' % x, (lambda ans, x=x: '(HSqrt %d %d)' % (x, int(ans.split()[1], 16))), 'sqrti'))
        # property-level checks without a model: null pointers for strcmp, rand range / no panic
        direct = []
        direct.append(('helper strcmp 0 @2 0 0 0 - 6100', lambda a: a.split()[1] == 'ffffffffffffffff'))
        direct.append(('helper strcmp @1 0 0 0 0 6100', lambda a: a.split()[1] == 'ffffffffffffffff'))
        direct.append(('helper strcmp 0 0 0 0 0', lambda a: a.split()[1] == 'ffffffffffffffff'))
        pairs = [(0, 2 ** 64 - 1), (0, 1), (5, 6), (2 ** 64 - 2, 2 ** 64 - 1), (1, 2 ** 64 - 1), (0, 2 ** 63), (7, 7), (9, 3), (2 ** 63, 2 ** 63 + 1)]
        for (mn, mx) in pairs:
            for _ in range(20):
                direct.append(('helper rand %d %d 0 0 0' % (mn, mx),
                               (lambda a, mn=mn, mx=mx: a.startswith('RET') and (not (mn < mx) or mn <= int(a.split()[1], 16) <= mx))))
        answers = vlib.harness_run(binary, [r[0] for r in reqs] + [d[0] for d in direct])
        terms, idx = [], []
        kinds = {}
        for i, (r, a) in enumerate(zip(reqs, answers)):
            kinds[r[2]] = kinds.get(r[2], 0) + 1
            if not a.startswith('RET'):
                found = True
                chk.violation({'kind': 'counterexample', 'request': r[0], 'answer': a[:200], 'meaning': 'helper panicked / crashed'})
                continue
            terms.append(r[1](a))
            idx.append(i)
        bad, errors = vlib.coq_eval('C19', HEADER, terms, 'check', shard_size=300)
        if errors:
            raise vlib.Broken('model evaluation failed: ' + errors[0])
        for j, cd in bad:
            i = idx[j]
            found = True
            if len(chk.violations) < 12:
                chk.violation({'kind': 'counterexample', 'request': reqs[i][0], 'answer': answers[i][:200], 'helper': reqs[i][2],
                               'meaning': ('helper result differs from its documented function' if cd >= 2 else
                                           'model differs from implementation (tie B broken)')}, no_input=(cd == 1))
        for (line, ok), a in zip(direct, answers[len(reqs):]):
            kinds['direct'] = kinds.get('direct', 0) + 1
            if not ok(a):
                found = True
                chk.violation({'kind': 'counterexample', 'request': line, 'answer': a[:200], 'meaning': 'helper result outside its documented range / panic'})
        chk.cov['evaluations'] = len(reqs) + len(direct)
        chk.cov['distinct_nontrivial'] = len({r[0] for r in reqs})
        chk.cov['rule'] = ('gather_bytes on 64-bit boundary tuples; bpf_trace_printf on 16^k-1, 16^k, 16^k+1 (stdout captured: printed bytes = returned '
                           'count = model = spec); memfrob on buffers of every length 0..65 with partial lengths; strcmp on a 10x10 string menu plus null '
                           'pointers; sqrti on k^2-1, k^2, k^2+1, 2^e+-2 and random values (Flocq model; Z.sqrt below 2^52); rand on 9 (min,max) pairs; '
                           'distinct = distinct request')
        chk.cov['input_distribution'] = kinds
        chk.cov['samples'] = [{'request': reqs[i][0][:200], 'answer': answers[i][:100]} for i in (0, 200, len(reqs) - 1)]
    vlib.report_broken(chk, res, found)
    chk.cov['trusted_base'] = ['Coq 8.16.1 kernel + vm_compute', 'Flocq 4 (binary64 model of sqrti): its theorems depend on the standard library axioms '
                               'ClassicalDedekindReals.sig_forall_dec, sig_not_dec, functional_extensionality_dep, Classical_Prop.classic -- none is used by '
                               'the C19_* theorems themselves (sqrti is compared by evaluation only)',
                               'translator tools/rs2v (unit Helpers)', 'harness/ (stdout capture for bpf_trace_printf)', 'IEEE-754 conformance of the hardware sqrt']
    chk.assumptions = ['pointer arguments of memfrob/strcmp respect their preconditions (valid, NUL-terminated)']
    chk.cov['explanation'] = ('C19 theorems for gather_bytes / printf count / rand range / memfrob involution / strcmp zero-iff; sqrti: PARTIAL -- '
                              'the exactness below 2^52 is compared on the grid with the Flocq model and Z.sqrt, not proved')
