"""C08 -- helper calls follow the documented contract in every engine."""
import vlib
from checks import ebpf as B
from checks.interp_common import Case, run_cases, engine_compare, parse_answer
from checks import C01


def call_insn(hid, dst=0, off=0):
    return B.insn(0x85, dst, 0, off, hid)


def fold():
    out = B.movr(1, 0)
    for r in (6, 7, 8, 9):
        out += B.alu('mul', 1, imm=33) + B.alu('xor', 1, src=r)
    return out + B.movr(0, 1)


def has_local_call(prog):
    return any(prog[k] == 0x85 and (prog[k + 1] >> 4) == 1 for k in range(0, len(prog), 8))


def gen_cases(chk):
    rng = vlib.Rng(chk.seed).fork('C08')
    thorough = chk.tier == 'thorough'
    cases = []
    ids = [1, 2, 10, 16, 0xff, 0x7fffffff, -1, -2 ** 31]
    # argument order and result register; callee-saved registers survive; any dst field in the call slot
    for _ in range(600 if thorough else 24):
        hid = rng.choice(ids)
        hname = rng.choice(['mix', 'clobber'])
        args = [rng.choice(B.B64) if rng.chance(2, 3) else rng.next() for _ in range(5)]
        saved = [rng.choice(B.B64) for _ in range(4)]
        p = b''.join(B.load_const(1 + k, args[k]) for k in range(5)) + b''.join(B.load_const(6 + k, saved[k]) for k in range(4))
        p += call_insn(hid, dst=rng.choice([0, 0, 3, 9])) + fold() + B.EXIT
        cases.append(Case(p, helpers=[(hid & 0xffffffff, hname)], fam='args:' + hname))
    # several helpers registered at once, with ids on both sides of 2^31 and bound alternately to two different functions: each id
    # must reach its own function whatever else is in the table
    many = [1, 3, 0x7ffffffe, 0x7fffffff, 0x80000000, 0x80000001, 0xdeadbeef, 0xfffffffe, 0xffffffff]
    for sets in (many, many[:5], many[4:], [1, 0x80000000], [0x7fffffff, 0xffffffff, 2]):
        table = [(k, 'mix' if j % 2 == 0 else 'clobber') for j, k in enumerate(sets)]
        for k in sets:
            p = B.mov(1, 5) + B.mov(2, 0) + B.mov(3, 0) + B.mov(4, 0) + B.mov(5, 0) + call_insn(k if k < 2 ** 31 else k - 2 ** 32) + B.EXIT
            cases.append(Case(p, helpers=table, fam='many-helpers'))
    # an id registered more than once: the call reaches the function registered last (registrations are made in list order)
    for k in (1, 0x7fffffff, 0x80000000, 0xffffffff):
        for table in ([(k, 'mix'), (k, 'clobber')], [(k, 'clobber'), (k, 'mix')], [(k, 'mix'), (2, 'clobber'), (k, 'clobber'), (k, 'mix')],
                      [(k, 'clobber'), (k, 'clobber'), (3, 'mix'), (k, 'mix'), (k, 'clobber')]):
            p = B.mov(1, 5) + B.mov(2, 0) + B.mov(3, 0) + B.mov(4, 0) + B.mov(5, 0) + call_insn(k if k < 2 ** 31 else k - 2 ** 32) + B.EXIT
            cases.append(Case(p, helpers=table, fam='re-registered'))
    # unknown ids: error when reached (interpreter); compile error (compilers)
    for hid in ids:
        cases.append(Case(B.mov(0, 7) + call_insn(hid) + B.EXIT, helpers=[((hid + 1) & 0xffffffff, 'mix')], fam='unknown'))
        cases.append(Case(B.mov(0, 7) + B.ja(1) + call_insn(hid) + B.EXIT, helpers=[], fam='unknown-unreached'))
    # 0..5 calls per program, also inside local functions at depth 1..3
    for ncalls in range(0, 6):
        p = B.mov(1, 1) + B.mov(2, 2) + B.mov(3, 3) + B.mov(4, 4) + B.mov(5, 5) + B.mov(0, 0)
        for k in range(ncalls):
            p += call_insn(2) + B.movr(1, 0) + B.mov(2, 2) + B.mov(3, 3) + B.mov(4, 4) + B.mov(5, 5)
        p += B.EXIT
        cases.append(Case(p, helpers=[(2, 'clobber')], fam='count:%d' % ncalls, note=str(ncalls)))
    for depth in (1, 2, 3):
        # main: r6 = K; call f1; exit.   f_k: call helper; (call f_{k+1}); exit
        body = B.load_const(6, 0x600dcafe) + B.mov(1, 10) + B.callx(2) + B.alu('add', 0, src=6) + B.EXIT
        for k in range(depth):
            f = B.mov(2, 0) + B.mov(3, 0) + B.mov(4, 0) + B.mov(5, 0) + call_insn(1) + B.movr(1, 0)
            if k < depth - 1:
                f += B.callx(1)
            f += B.EXIT
            body += f
        cases.append(Case(body, helpers=[(1, 'mix')], fam='in-local:%d' % depth, budget=300))
    # the platform C ABI: stack alignment at helper entry, at top level and inside local functions
    cases.append(Case(call_insn(3) + B.EXIT, helpers=[(3, 'rsp')], fam='align:0'))
    cases.append(Case(B.callx(1) + B.EXIT + call_insn(3) + B.EXIT, helpers=[(3, 'rsp')], fam='align:1', budget=100))
    cases.append(Case(B.callx(1) + B.EXIT + B.callx(1) + B.EXIT + call_insn(3) + B.EXIT, helpers=[(3, 'rsp')], fam='align:2', budget=100))
    # a helper that clobbers every caller-saved machine register, followed by packet loads and register use
    pk = bytes(range(1, 33))
    cases.append(Case(B.mov(1, 5) + B.load_const(6, 0x1234) + call_insn(2) + B.ldabs('b', 3) + B.alu('add', 0, src=6) + B.EXIT,
                      mem=pk, mbuff=bytes(8), helpers=[(2, 'clobber')], fam='clobber-ldabs'))
    cases.append(Case(B.mov(1, 5) + call_insn(2) + B.movr(7, 0) + B.mov(4, 2) + B.ldind('h', 4, 1) + B.alu('add', 0, src=7) + B.EXIT,
                      mem=pk, mbuff=bytes(8), helpers=[(2, 'clobber')], fam='clobber-ldind'))
    return cases


def run(chk):
    res = vlib.prove(chk, C01.UNITS + ['JitLogic', 'JitEnc', 'JitMulDiv', 'JitMisc', 'ClMisc'],
                     C01.MODELS + ['theories/X86Seq.vo', 'gen/JitMisc.vo', 'gen/ClMisc.vo', 'gen/JitLogic.vo'], 'C08',
                     C01.PROOFS + ['theories/InterpCalls.v', 'theories/JitMiscProofs.v', 'theories/ClMiscProofs.v', 'theories/ClStep.v', 'theories/JitStep.v'])
    found = False
    if res['model_ok']:
        binary = vlib.harness_build('debug')
        cases = gen_cases(chk)
        answers, bad, skipped = run_cases(chk, 'C08', cases, binary)
        fams = {}
        for c in cases:
            fams[c.fam.split(':')[0]] = fams.get(c.fam.split(':')[0], 0) + 1
        chk.cov['evaluations'] = len(cases)
        chk.cov['distinct_nontrivial'] = len({(c.prog, str(c.helpers)) for c in cases})
        chk.cov['rule'] = ('helper ids from {1,2,2^31-1,-1,-2^31}, argument tuples from the 64-bit boundary grid, any dst field in the call '
                           'slot, 0..5 calls per program, call sites at local-call depth 0..3, helper sets with and without the id, '
                           'instrumented helpers (argument mixer, caller-saved clobberer, stack-alignment probe); all cases contain a '
                           'helper call; distinct = distinct (program, helper set)')
        chk.cov['input_distribution'] = {'families': fams}
        chk.cov['samples'] = [{'request': cases[i].line()[:300], 'implementation': answers[i]['raw'][:160]} for i in (0, 15, len(cases) - 1)]
        for i, cd in bad:
            found = True
            c = cases[i]
            if len(chk.violations) < 10:
                chk.violation({'kind': 'counterexample', 'request': c.line(), 'implementation_answer': answers[i]['raw'][:300], 'family': c.fam,
                               'engine': 'interp', 'meaning': ('helper-call behaviour differs from the ISA specification' if cd >= 2 else
                                                                'model differs from implementation (tie B broken)')}, no_input=(cd == 1))
        # exactly-once: the call counter of the instrumented helper
        for c, a in zip(cases, answers):
            if c.fam.startswith('count:') and a.get('hc') != c.note:
                found = True
                chk.violation({'kind': 'counterexample', 'request': c.line(), 'implementation_answer': a['raw'][:200],
                               'meaning': 'helper invoked %s times, expected %s' % (a.get('hc'), c.note)})
        # compiled engines
        eng, diffs = engine_compare(binary, cases, engines=('jit', 'cl'), kind='mbuff')
        for i, e, a, b in diffs:
            if cases[i].fam == 'unknown-unreached' and b['raw'].startswith('ERR:compile'):
                continue
            if e == 'cl' and has_local_call(cases[i].prog) and b['raw'].startswith('ERR:compile'):
                continue   # Cranelift must refuse programs with eBPF-to-eBPF calls (C04)   # refusing an unregistered id at compile time is what the property asks of the compilers
            found = True
            if len(chk.violations) < 16:
                chk.violation({'kind': 'counterexample', 'request': cases[i].line(engine=e), 'interpreter_answer': a['raw'][:200],
                               'engine_answer': b['raw'][:200], 'family': cases[i].fam, 'engine': e,
                               'meaning': 'compiled code differs from the interpreter on a helper-call program'})
        for e in ('jit', 'cl'):
            for c, a in zip(cases, eng[e]):
                if c.fam.startswith('count:') and a['status'] == 0 and a.get('hc') != c.note:
                    found = True
                    chk.violation({'kind': 'counterexample', 'request': c.line(engine=e), 'engine_answer': a['raw'][:200], 'engine': e,
                                   'meaning': 'helper invoked %s times, expected %s' % (a.get('hc'), c.note)})
                if c.fam == 'unknown' and not a['raw'].startswith('ERR:compile'):
                    found = True
                    chk.violation({'kind': 'counterexample', 'request': c.line(engine=e), 'engine_answer': a['raw'][:200], 'engine': e,
                                   'meaning': 'calling an unregistered helper id was not refused at compile time'})
    vlib.report_broken(chk, res, found)
    chk.cov['trusted_base'] = ['Coq 8.16.1 kernel + vm_compute', 'no axioms', 'translator tools/rs2v (unit Interp)', 'harness/ instrumented helpers',
                               'compiled engines: differential only; the machine ABI of Cranelift is trusted']
    chk.assumptions = ['helpers are total functions of their five arguments']
    chk.cov['explanation'] = 'C08 theorems on the ISA step (= regenerated interpreter step); JIT and Cranelift compared with the interpreter, incl. alignment probe and clobbering helper'
