"""Shared by C03 (x86-64 JIT) and C04 (Cranelift): a corpus of verifier-accepted programs whose result does not
depend on undefined state, compared with the interpreter (whose agreement with the ISA is theorem C01)."""
import vlib
from checks import ebpf as B
from checks.interp_common import Case, parse_answer
from checks import C01, C05

IMM_EDGES = [-2 ** 31, -2 ** 31 + 1, -129, -128, -127, -1, 0, 1, 2, 31, 32, 63, 64, 127, 128, 255, 256, 0x7fff, 0x8000, 0xffff, 0x10000, 2 ** 31 - 1]
OFF_EDGES = [-129, -128, -127, -8, -1, 0, 1, 8, 126, 127, 128, 255, 256]
VALS = [0, 1, 2, 0x7f, 0x80, 0xff, 0x7fffffff, 0x80000000, 0xffffffff, 0x100000000, 0x123456789abcdef0, 2 ** 63 - 1, 2 ** 63, 2 ** 64 - 1]


def corpus(chk, tag):
    """-> list of Case"""
    rng = vlib.Rng(chk.seed).fork(tag)
    thorough = chk.tier == 'thorough'
    out = []
    # 1. every ALU opcode x every destination / source register pair (each pair is a different machine encoding)
    for w in (32, 64):
        for name in B.ALU_OPS:
            for d in range(10):
                # immediate form: one boundary immediate per (opcode, register), all of them over the registers
                if name != 'neg':
                    imms = IMM_EDGES if thorough else [rng.choice(IMM_EDGES), rng.choice(IMM_EDGES)]
                    for imm in imms:
                        a = rng.choice(VALS)
                        out.append(Case(B.load_const(d, a) + B.alu(name, d, imm=imm, w=w) + B.movr(0, d) + B.EXIT, fam='alu-imm:%s%d' % (name, w)))
                else:
                    out.append(Case(B.load_const(d, rng.choice(VALS)) + B.alu('neg', d, w=w) + B.movr(0, d) + B.EXIT, fam='alu-imm:neg%d' % w))
                if name == 'neg':
                    continue
                for s in range(10):
                    a, b = rng.choice(VALS), rng.choice(VALS)
                    if name in ('div', 'mod') and rng.chance(1, 4):
                        b = rng.choice([0, 2 ** 32, 1])
                    if name in ('lsh', 'rsh', 'arsh'):
                        b = rng.choice([0, 1, 31, 32, 33, 63, 64, 65, 2 ** 32 + 3, 2 ** 64 - 1])
                    pre = B.load_const(d, a) + (B.load_const(s, b) if s != d else b'')
                    out.append(Case(pre + B.alu(name, d, src=s, w=w) + B.movr(0, d) + B.EXIT, fam='alu-reg:%s%d' % (name, w)))
    for be in (False, True):
        for width in (16, 32, 64):
            for d in range(10):
                out.append(Case(B.load_const(d, rng.choice(VALS[8:])) + B.endian(be, d, width) + B.movr(0, d) + B.EXIT, fam='endian'))
    for d in range(10):
        for v in VALS:
            out.append(Case(B.lddw(d, v) + B.movr(0, d) + B.EXIT, fam='lddw'))
    # 2. conditional jumps: every condition x width x form x register pair, operands on both sides of the boundary
    for w in (64, 32):
        for name in B.JMP_OPS:
            for d in range(10):
                a = rng.choice(VALS)
                sa = a - 2 ** 64 if a >= 2 ** 63 else a
                if not (w == 64 and name in ('jeq', 'jgt', 'jge', 'jlt', 'jle', 'jne')):    # negative immediates there: known finding D7 (C01)
                    imm_c = [x for x in (sa, sa + 1, sa - 1, a & 0xffffffff, (a & 0xffffffff) - 2 ** 32) if -2 ** 31 <= x < 2 ** 31] + IMM_EDGES
                else:
                    imm_c = [x for x in (sa, sa + 1, sa - 1) if 0 <= x < 2 ** 31] + [x for x in IMM_EDGES if x >= 0]
                for imm in ([rng.choice(imm_c) for _ in range(3)] if not thorough else imm_c):
                    p = B.load_const(d, a) + B.jmp(name, d, 2, imm=imm, w=w) + B.mov(0, 1) + B.EXIT + B.mov(0, 2) + B.EXIT
                    out.append(Case(p, fam='jmp-imm:%s%d' % (name, w)))
                for s in range(10):
                    b = rng.choice([a, (a + 1) % 2 ** 64, (a - 1) % 2 ** 64] + VALS)
                    if s == d:
                        b = a
                    p = B.load_const(d, a) + (B.load_const(s, b) if s != d else b'') + B.jmp(name, d, 2, src=s, w=w) + B.mov(0, 1) + B.EXIT + B.mov(0, 2) + B.EXIT
                    out.append(Case(p, fam='jmp-reg:%s%d' % (name, w)))
    # 3. memory: every width x base register (incl. the frame pointer) x value register x displacement boundaries
    pk = bytes((7 * i + 3) & 255 for i in range(640))
    for sz in ('b', 'h', 'w', 'dw'):
        n = B.SIZE_BYTES[sz]
        for base in range(1, 11):
            for off in OFF_EDGES:
                val = rng.choice(range(0, 10))
                if val == base:
                    val = (base % 9) + 1 if base != 10 else 3
                # base register points 300 bytes into the packet (or the stack), so every displacement stays inside
                setb = (B.movr(base, 1) + B.alu('add', base, imm=300)) if base != 10 else b''
                adj = off if base != 10 else off - 300
                if base == 10 and not (-512 <= adj and adj + n <= 0):
                    continue
                ld = B.ldx(sz, 0, base, adj)
                if base != 10:
                    out.append(Case(setb + ld + B.EXIT, mem=pk, fam='ldx:' + sz))
                    out.append(Case(setb + B.st(sz, base, adj, rng.choice(IMM_EDGES)) + ld + B.EXIT, mem=pk, fam='st:' + sz))
                    out.append(Case(setb + B.load_const(val, rng.choice(VALS)) + B.stx(sz, base, val, adj) + ld + B.EXIT, mem=pk, fam='stx:' + sz))
                else:
                    out.append(Case(B.st(sz, 10, adj, rng.choice(IMM_EDGES)) + ld + B.EXIT, fam='st-stack:' + sz))
                    out.append(Case(B.load_const(val, rng.choice(VALS)) + B.stx(sz, 10, val, adj) + ld + B.EXIT, fam='stx-stack:' + sz))
                if sz in ('w', 'dw') and off % n == 0:
                    if base != 10:
                        out.append(Case(setb + B.load_const(val, rng.choice(VALS)) + B.xadd(sz, base, val, adj - (300 + adj) % n) +
                                        B.ldx('dw', 0, base, adj - (300 + adj) % 8) + B.EXIT, mem=pk, fam='xadd:' + sz))
        for off in (0, 1, 17, 640 - n):
            out.append(Case(B.ldabs(sz, off) + B.EXIT, mem=pk, fam='ldabs:' + sz))
            for s in range(1, 10):
                out.append(Case(B.mov(s, off // 2) + B.ldind(sz, s, off - off // 2) + B.EXIT, mem=pk, fam='ldind:' + sz))
    # 4. control flow: loops, back edges, dead code, fall-through blocks, long programs (pc above 65535)
    out += [c for c in C01.jmp_cases(rng, False) if c.fam in ('loop', 'ja-back')]
    out.append(Case(B.mov(0, 0) + B.ja(2) + B.mov(0, 9) + B.EXIT + B.alu('add', 0, imm=5) + B.ja(-4), fam='cfg'))
    out.append(Case(B.mov(0, 1) + B.jmp('jeq', 0, 1, imm=1) + B.mov(0, 7) + B.alu('add', 0, imm=1) + B.EXIT + B.mov(0, 99) + B.EXIT, fam='cfg'))
    out.append(Case(B.mov(1, 5) + B.mov(0, 0) + B.alu('add', 0, src=1) + B.alu('sub', 1, imm=1) + B.jmp('jsgt', 1, -3, imm=0) + B.EXIT, fam='cfg'))
    for n in (70000,) if not thorough else (33000, 70000, 140000):
        out.append(Case(B.ja(n) + B.mov(0, 1) * n + B.mov(3, 0) + B.mov(0, 77) + B.alu('div', 0, src=3, w=32) + B.alu('add', 0, imm=7) + B.EXIT, fam='long', budget=50))
        out.append(Case(B.ja(n) + B.mov(0, 1) * n + B.mov(3, 0) + B.lddw(0, 0x1234567800000009) + B.alu('mod', 0, src=3, w=64) + B.EXIT, fam='long', budget=50))
    for _ in range(2500 if thorough else 400):
        out.append(Case(C01.random_program(rng, 4 + rng.below(20)), fam='random', budget=2000))
    # 5. control-flow graph shapes: forward jumps, bounded back edges, dead code, fall-through-only blocks, jumps over wide loads,
    #    consecutive jumps, jumps to the next instruction; r0 accumulates a different constant per block, so the path is visible
    for _ in range(6000 if thorough else 1200):
        out.append(Case(cfg_program(rng, 2 + rng.below(9)), fam='cfg-shape', budget=5000))
    # 6. fields an instruction does not use hold anything the verifier lets through: they must not matter to any engine
    def patch(b, dst=None, src=None, off=None, imm=None):
        b = bytearray(b)
        if dst is not None:
            b[1] = (b[1] & 0xf0) | dst
        if src is not None:
            b[1] = (b[1] & 0x0f) | (src << 4)
        if off is not None:
            b[2:4] = (off & 0xffff).to_bytes(2, 'little')
        if imm is not None:
            b[4:8] = (imm & 0xffffffff).to_bytes(4, 'little')
        return bytes(b)
    junk_r = (1, 5, 9, 10)
    junk_o = (1, -1, 0x7fff)
    junk_i = (1, -1, 0x7fffffff, -0x80000000)
    pk16 = bytes((11 * i + 7) & 255 for i in range(64))
    for k in range(len(junk_r) * 3):
        jr, jo, ji = junk_r[k % 4], junk_o[k % 3], junk_i[k % 4]
        d = 1 + k % 8
        for w in (32, 64):
            for name in ('add', 'mul', 'div', 'mov', 'arsh'):
                out.append(Case(B.load_const(d, VALS[k % len(VALS)]) + patch(B.alu(name, d, imm=3, w=w), src=jr, off=jo) + B.movr(0, d) + B.EXIT, fam='ignored:alu-imm'))
                out.append(Case(B.load_const(d, VALS[k % len(VALS)]) + B.load_const(9 - d % 2, 5) + patch(B.alu(name, d, src=9 - d % 2, w=w), off=jo, imm=ji) +
                                B.movr(0, d) + B.EXIT, fam='ignored:alu-reg'))
            out.append(Case(B.load_const(d, 77) + patch(B.alu('neg', d, w=w), src=jr, off=jo, imm=ji) + B.movr(0, d) + B.EXIT, fam='ignored:neg'))
            out.append(Case(B.load_const(d, 7) + patch(B.jmp('jgt', d, 2, imm=3, w=w), src=jr) + B.mov(0, 1) + B.EXIT + B.mov(0, 2) + B.EXIT, fam='ignored:jmp-imm'))
            out.append(Case(B.load_const(d, 7) + B.load_const(9, 9) + patch(B.jmp('jslt', d, 2, src=9, w=w), imm=ji) + B.mov(0, 1) + B.EXIT + B.mov(0, 2) + B.EXIT,
                            fam='ignored:jmp-reg'))
        out.append(Case(B.load_const(d, 0x1122334455667788) + patch(B.endian(k % 2 == 0, d, (16, 32, 64)[k % 3]), src=jr, off=jo) + B.movr(0, d) + B.EXIT, fam='ignored:endian'))
        out.append(Case(patch(B.lddw(d, 0x0102030405060708)[:8], off=jo) + patch(B.lddw(d, 0x0102030405060708)[8:], dst=jr % 10, src=jr, off=jo) + B.movr(0, d) + B.EXIT,
                        fam='ignored:lddw'))
        out.append(Case(B.mov(0, 3) + patch(B.ja(1), dst=d, src=jr, imm=ji) + B.mov(0, 4) + patch(B.EXIT, dst=d, src=jr, off=jo, imm=ji), fam='ignored:ja-exit'))
        for sz in ('b', 'w', 'dw'):
            out.append(Case(B.mov(0, 0x55) + patch(B.ldabs(sz, 8), dst=d, src=jr, off=jo) + B.EXIT, mem=pk16, fam='ignored:ldabs'))
            out.append(Case(B.mov(0, 0x55) + B.mov(3, 4) + patch(B.ldind(sz, 3, 8), dst=d, off=jo) + B.EXIT, mem=pk16, fam='ignored:ldind'))
            out.append(Case(patch(B.ldx(sz, 0, 1, 8), imm=ji) + B.EXIT, mem=pk16, fam='ignored:ldx'))
            out.append(Case(patch(B.st(sz, 1, 8, 0x31), src=jr) + B.ldx('dw', 0, 1, 8) + B.EXIT, mem=pk16, fam='ignored:st'))
            out.append(Case(B.load_const(2, 0x4142434445464748) + patch(B.stx(sz, 1, 2, 8), imm=ji) + B.ldx('dw', 0, 1, 8) + B.EXIT, mem=pk16, fam='ignored:stx'))
    return out


def cfg_program(rng, k):
    conds = list(B.JMP_OPS)
    blocks = []          # (body bytes, terminator kind, target block or None, cond details)
    for i in range(k):
        body = B.alu('add', 0, imm=rng.choice([1, 3, 7, 0x10, 0x100, 0x1000, 0x10000]) * (i + 1))
        if rng.chance(1, 3):
            body += B.lddw(3 + rng.below(3), rng.next())
        if rng.chance(1, 4):
            body += B.alu('xor', 0, imm=rng.below(2 ** 16))
        if i == k - 1:
            blocks.append((body, 'exit', None, None))
            continue
        t = rng.below(10)
        later = i + 1 + rng.below(k - i - 1)
        if t < 2:
            blocks.append((body, 'fall', None, None))
        elif t < 4:
            blocks.append((body, 'ja', later, None))
        elif t < 7:
            blocks.append((body, 'jc', later, (rng.choice(conds), rng.choice([32, 64]), rng.choice([0, 1, 2, 5, 2 ** 31 - 1]))))
        elif t < 8:
            blocks.append((body, 'exit', None, None))
        elif t < 9 and i > 0:
            blocks.append((body, 'back', rng.below(i + 1), None))        # counted back edge (at most 3 times)
        else:
            blocks.append((body, 'jc2', later, (rng.choice(conds), rng.choice(conds))))   # two consecutive conditional jumps
    # layout: sizes in instructions
    def tsize(kind):
        return {'fall': 0, 'ja': 1, 'jc': 1, 'exit': 1, 'back': 2, 'jc2': 2}[kind]
    starts = []
    pc = 3           # preamble: mov r0, 0; mov r1, <random>; mov r2, 0
    for body, kind, tgt, det in blocks:
        starts.append(pc)
        pc += len(body) // 8 + tsize(kind)
    out = B.load_const(1, rng.choice([0, 1, 2, 5, 2 ** 31 - 1, 2 ** 32, 2 ** 64 - 1]))
    if len(out) != 8:
        out = B.mov(1, rng.choice([0, 1, 2, 5]))
    out = B.mov(0, 0) + out + B.mov(2, 0)
    pc = 3
    for (body, kind, tgt, det) in blocks:
        out += body
        pc += len(body) // 8
        if kind == 'ja':
            out += B.ja(starts[tgt] - (pc + 1))
        elif kind == 'jc':
            name, w, imm = det
            if w == 64 and name in ('jeq', 'jgt', 'jge', 'jlt', 'jle', 'jne'):
                imm = abs(imm)
            out += B.jmp(name, 1, starts[tgt] - (pc + 1), imm=imm, w=w)
        elif kind == 'jc2':
            n1, n2 = det
            out += B.jmp(n1, 1, starts[tgt] - (pc + 1), imm=1, w=32) + B.jmp(n2, 1, 0, imm=2, w=32)
        elif kind == 'exit':
            out += B.EXIT
        elif kind == 'back':
            out += B.alu('add', 2, imm=1) + B.jmp('jlt', 2, starts[tgt] - (pc + 2), imm=3, w=32)
        pc += tsize(kind)
    return out


R1_FAMS = ('ldx:', 'st:', 'stx:', 'xadd:')      # these address the packet through r1: only meaningful where r1 = packet (raw VM)


def compare(binary, cases, engine, kinds=('raw', 'mbuff', 'nodata', 'fixed'), stride=3):
    """-> (diffs [(case, kind, request line, interp answer, engine answer)], counters).  Every case runs on the raw VM
    (r1 = packet); every stride-th case that does not go through r1 also runs on the other kinds (with a 16-byte
    metadata buffer for the mbuff VM).  Only cases where the interpreter returns a value take part."""
    import copy
    diffs, stats = [], {}
    for ki, kind in enumerate(kinds):
        if kind == 'raw':
            sel = list(cases)
        else:
            sel = [c for c in cases[::stride] if not c.fam.startswith(R1_FAMS) and c.fam != 'random']
        if kind == 'nodata':
            sel = [c for c in sel if not c.mem and not c.mbuff]
        if kind == 'mbuff':
            sel2 = []
            for c in sel:
                c2 = copy.copy(c)
                c2.mbuff = bytes(range(0x40, 0x50))
                sel2.append(c2)
            sel = sel2
        extra = ' d=0 e=8 reps=1' if kind == 'fixed' else ''
        li = [c.line(engine='interp', kind=kind) + extra for c in sel]
        le = [c.line(engine=engine, kind=kind) + extra for c in sel]
        ai = [parse_answer(x) for x in vlib.harness_run(binary, li)]
        ae = [parse_answer(x) for x in vlib.harness_run(binary, le)]
        for c, l, a, b in zip(sel, le, ai, ae):
            k = '%s:%s' % (kind, 'defined' if a['status'] == 0 else 'interp-not-ok')
            stats[k] = stats.get(k, 0) + 1
            if a['status'] != 0:
                continue
            same = b['status'] == 0 and b['val'] == a['val'] and b['mem'] == a['mem'] and (kind == 'fixed' or b['mbuff'] == a['mbuff'])
            if not same:
                diffs.append((c, kind, l, a, b))
    return diffs, stats
