"""C05 -- a program accepted by the default verifier can never crash the interpreter."""
import vlib
from vlib import zhex
from checks import ebpf as B
from checks.interp_common import Case, run_cases
from checks import C01

SUPPORTED = sorted(set(B.ALU_OPCODES + B.JMP_OPCODES + [0x05, 0x18, 0x85, 0x95, 0xd4, 0xdc, 0xc3, 0xdb] +
                       [0x20 | s for s in (0, 8, 0x10, 0x18)] + [0x40 | s for s in (0, 8, 0x10, 0x18)] +
                       [0x61 | s for s in (0, 8, 0x10, 0x18)] + [0x62 | s for s in (0, 8, 0x10, 0x18)] +
                       [0x63 | s for s in (0, 8, 0x10, 0x18)]))


def accepted_program(rng, nslots):
    """arbitrary instruction bytes that satisfy the well-formedness rules (C06): every field is
    drawn at random within what the verifier allows, nothing else is assumed"""
    kinds = []
    while len(kinds) < nslots - 1:
        o = rng.choice(SUPPORTED)
        if o in (0x95,) and rng.chance(2, 3):
            continue
        if o == 0x18:
            if len(kinds) + 2 > nslots - 1:
                continue
            kinds += [0x18, None]
        else:
            kinds.append(o)
    kinds.append(0x95 if rng.chance(3, 4) else 0x05)
    n = len(kinds)
    starts = [k for k in range(n) if kinds[k] is not None]
    out = []
    for k, o in enumerate(kinds):
        if o is None:
            out.append(B.insn(0, rng.below(256) & 0, 0, 0, rng.choice(B.BI32)))
            continue
        cls = o & 7
        is_store = cls in (2, 3)
        dst = rng.below(11) if is_store else rng.below(10)
        src = rng.below(11)
        off = rng.choice([0, 1, -1, 7, -8, 8, 255, -256, 32767, -32768]) if rng.chance(1, 2) else rng.below(65536) - 32768
        imm = rng.choice(B.BI32) if rng.chance(2, 3) else rng.below(2 ** 32) - 2 ** 31
        if o in (0xd4, 0xdc):
            imm = rng.choice([16, 32, 64])
        if o in (0xc3, 0xdb):
            imm = 0
        is_jump = (o == 0x05) or (cls in (5, 6) and o not in (0x85, 0x95))
        if is_jump:
            cands = [t for t in starts if t != k]          # off != -1 means target != k
            if not cands:
                return None
            t = rng.choice(cands)
            off = t - (k + 1)
        if o == 0x85:
            if rng.chance(1, 2):
                src = 0
                imm = rng.choice([1, 2, 3, 0x7fffffff, -1])
            else:
                src = 1
                imm = rng.choice(starts) - (k + 1)
        out.append(B.insn(o, dst, src, off, imm))
    return b''.join(out)


def near_miss(rng, p):
    """an accepted program with exactly one verifier rule broken: the verifier must refuse it (and, if a changed
    verifier lets it through, running it shows what the refusal was protecting the interpreter from)"""
    import struct
    n = len(p) // 8
    ins = [list(struct.unpack('<BBhi', p[8 * k:8 * k + 8])) for k in range(n)]       # opc, regs, off, imm
    second = {k + 1 for k in range(n) if ins[k][0] == 0x18}
    starts = [k for k in range(n) if k not in second]
    def is_jump(k):
        o = ins[k][0]
        return k not in second and ((o == 0x05) or ((o & 7) in (5, 6) and o not in (0x85, 0x95)))
    lcalls = [k for k in starts if ins[k][0] == 0x85 and (ins[k][1] >> 4) == 1]
    jumps = [k for k in starts if is_jump(k)]
    wides = [k for k in starts if ins[k][0] == 0x18]
    kinds = ['last', 'src', 'opcode', 'callkind', 'tail']
    if lcalls:
        kinds += ['call-wrap', 'call-wrap', 'call-wrap', 'call-out', 'call-neg']
        if wides:
            kinds += ['call-mid']
    if jumps:
        kinds += ['jump-out', 'jump-neg', 'jump-self']
        if wides:
            kinds += ['jump-mid']
    alus = [k for k in starts if (ins[k][0] & 7) in (4, 7, 0, 1) and ins[k][0] not in (0x18,)]
    if alus:
        kinds += ['dst10']
    stores = [k for k in starts if (ins[k][0] & 7) in (2, 3)]
    if stores:
        kinds += ['store-dst', 'store-dst']
    cjumps = [k for k in jumps if ins[k][0] != 0x05]
    if cjumps:
        kinds += ['jump-dst']
    ends = [k for k in starts if ins[k][0] in (0xd4, 0xdc)]
    if ends:
        kinds += ['endian']
    xadds = [k for k in starts if ins[k][0] in (0xc3, 0xdb)]
    if xadds:
        kinds += ['xadd-imm']
    if wides:
        kinds += ['wide-second']
    kind = rng.choice(kinds)
    if kind == 'last':
        ins[n - 1] = [0xb7, 0, 0, 0] if (n - 1) not in second else ins[n - 1]
        if (n - 1) in second:
            return None
    elif kind == 'src':
        k = rng.choice(starts); ins[k][1] = (ins[k][1] & 0x0f) | ((11 + rng.below(5)) << 4)
        if ins[k][0] == 0x85:
            return None
    elif kind == 'opcode':
        k = rng.choice(starts[:-1] or starts)
        if ins[k][0] == 0x18:
            return None
        ins[k][0] = rng.choice([o for o in range(256) if o not in SUPPORTED and o != 0 and o != 0x8d])
    elif kind == 'callkind':
        k = rng.choice(starts[:-1] or starts)
        if ins[k][0] == 0x18:
            return None
        ins[k][0] = 0x85; ins[k][1] = (ins[k][1] & 0x0f) | ((2 + rng.below(9)) << 4)
    elif kind == 'tail':
        k = rng.choice(starts[:-1] or starts)
        if ins[k][0] == 0x18:
            return None
        ins[k][0] = 0x8d
    elif kind == 'call-wrap':                                   # same low 16 bits, different real target
        k = rng.choice(lcalls)
        m = rng.choice([1, -1, 2, -2, 0x7fff, -0x8000]) * 65536
        v = ins[k][3] + m
        if not -2 ** 31 <= v < 2 ** 31:
            return None
        t = k + 1 + v
        if 0 <= t < n and t not in second:
            return None
        ins[k][3] = v
    elif kind == 'call-out':
        k = rng.choice(lcalls); ins[k][3] = n - (k + 1) + rng.choice([0, 1, 7, 70000])
    elif kind == 'call-neg':
        k = rng.choice(lcalls); ins[k][3] = -(k + 2) - rng.choice([0, 1, 70000])
    elif kind == 'call-mid':
        k = rng.choice(lcalls); ins[k][3] = rng.choice(wides) + 1 - (k + 1)
    elif kind == 'jump-out':
        k = rng.choice(jumps); ins[k][2] = n - (k + 1) + rng.choice([0, 1, 7])
    elif kind == 'jump-neg':
        k = rng.choice(jumps); ins[k][2] = -(k + 2) - rng.choice([0, 1])
    elif kind == 'jump-self':
        k = rng.choice(jumps); ins[k][2] = -1
    elif kind == 'jump-mid':
        k = rng.choice(jumps); ins[k][2] = rng.choice(wides) + 1 - (k + 1)
    elif kind == 'dst10':
        k = rng.choice(alus); ins[k][1] = (ins[k][1] & 0xf0) | (10 + rng.below(6))
    elif kind == 'store-dst':                                   # r10 is a legal store base, r11..r15 do not exist
        k = rng.choice(stores); ins[k][1] = (ins[k][1] & 0xf0) | (11 + rng.below(5))
    elif kind == 'jump-dst':
        k = rng.choice(cjumps); ins[k][1] = (ins[k][1] & 0xf0) | (10 + rng.below(6))
    elif kind == 'endian':
        k = rng.choice(ends); ins[k][3] = rng.choice([0, 8, 24, 48, 128, -16])
    elif kind == 'xadd-imm':
        k = rng.choice(xadds); ins[k][3] = rng.choice([1, -1, 0x10])
    elif kind == 'wide-second':
        k = rng.choice(wides); ins[k + 1][0] = rng.choice([0xb7, 0x95, 0x18])
    try:
        return kind, b''.join(struct.pack('<BBhi', *i) for i in ins)
    except struct.error:
        return None


def gen_cases(chk):
    rng = vlib.Rng(chk.seed).fork('C05')
    thorough = chk.tier == 'thorough'
    cases = []
    pk = bytes((7 * i + 1) & 255 for i in range(48))
    mb = bytes((5 * i + 3) & 255 for i in range(24))
    for _ in range(30000 if thorough else 2500):
        p = accepted_program(rng, 1 + rng.below(24))
        if p is None:
            continue
        cases.append(Case(p, mem=pk if rng.chance(3, 4) else b'', mbuff=mb if rng.chance(1, 2) else b'',
                          helpers=[(1, 'mix'), (2, 'clobber')], budget=200, fam='random-accepted'))
    # one rule broken: refused by the model's verifier, so the real one must refuse it too
    for _ in range(12000 if thorough else 1500):
        p = accepted_program(rng, 2 + rng.below(24))
        nm = near_miss(rng, p) if p is not None else None
        if nm is None:
            continue
        cases.append(Case(nm[1], mem=pk, mbuff=mb, helpers=[(1, 'mix'), (2, 'clobber')], budget=200, fam='near-miss:' + nm[0]))
    # every ALU operation (32 / 64 bits, immediate / register) on boundary operands: no operand value may make an arm panic
    AV = [0, 1, 2, 31, 32, 63, 64, 0x7fffffff, 0x80000000, 0xffffffff, 0x100000000, 0x1234567880000000, 0xffffffff80000000,
          2 ** 63 - 1, 2 ** 63, 2 ** 64 - 1]
    IMM = [0, 1, -1, 31, 32, 63, 64, 0x7fffffff, -0x80000000]
    for w in (32, 64):
        for name in B.ALU_OPS:
            for a in AV:
                if name == 'neg':
                    cases.append(Case(B.lddw(1, a) + B.alu('neg', 1, w=w) + B.movr(0, 1) + B.EXIT, fam='alu-boundary'))
                    continue
                bs = AV if thorough else [rng.choice(AV) for _ in range(3)] + [0x80000000]
                for b in bs:
                    cases.append(Case(B.lddw(1, a) + B.lddw(2, b) + B.alu(name, 1, src=2, w=w) + B.movr(0, 1) + B.EXIT, fam='alu-boundary'))
                for imm in (IMM if thorough else [rng.choice(IMM) for _ in range(2)]):
                    if name in ('div', 'mod') and imm == 0 and False:
                        continue
                    cases.append(Case(B.lddw(1, a) + B.alu(name, 1, imm=imm, w=w) + B.movr(0, 1) + B.EXIT, fam='alu-boundary'))
    # directed: the arithmetic that used to overflow
    cases.append(Case(B.lddw(1, 2 ** 63) + B.alu('neg', 1) + B.movr(0, 1) + B.EXIT, fam='neg64-min'))
    # every memory instruction with a base register at the edges of the signed / unsigned 64-bit range and displacements that
    # cross them: the address computation must wrap (and the access be refused), never overflow
    edges = [2 ** 63 - 1, 2 ** 63 - 8, 2 ** 63 - 32768, 2 ** 63, 2 ** 63 + 7, 2 ** 63 + 32767, 2 ** 64 - 1, 2 ** 64 - 8, 0, 7]
    for sz in ('b', 'h', 'w', 'dw'):
        for base in edges:
            for off in (1, 8, 32767, -1, -8, -32768):
                if not thorough and (edges.index(base) + off + len(sz)) % 2:
                    continue
                cases.append(Case(B.lddw(1, base) + B.ldx(sz, 0, 1, off) + B.EXIT, mem=pk, fam='addr-edge:ldx'))
                cases.append(Case(B.lddw(1, base) + B.mov(2, 5) + B.stx(sz, 1, 2, off) + B.mov(0, 0) + B.EXIT, mem=pk, fam='addr-edge:stx'))
                cases.append(Case(B.lddw(1, base) + B.st(sz, 1, off, 7) + B.mov(0, 0) + B.EXIT, mem=pk, fam='addr-edge:st'))
                if sz in ('w', 'dw'):
                    cases.append(Case(B.lddw(1, base) + B.mov(2, 5) + B.xadd(sz, 1, 2, off) + B.mov(0, 0) + B.EXIT, mem=pk, fam='addr-edge:xadd'))
        for base in edges:
            for imm in (0, 1, 0x7fffffff, -1, -0x80000000):
                cases.append(Case(B.lddw(4, base) + B.ldind(sz, 4, imm) + B.EXIT, mem=pk, fam='addr-edge:ldind'))
    # atomic adds at every alignment, in the stack and in the packet: a misaligned one is an error value, never an abort
    for sz in ('w', 'dw'):
        for k in range(16):
            cases.append(Case(B.mov(2, 3) + B.xadd(sz, 10, 2, -32 + k) + B.mov(0, 0) + B.EXIT, fam='xadd-align:stack'))
            cases.append(Case(B.mov(2, 3) + B.xadd(sz, 1, 2, k) + B.mov(0, 0) + B.EXIT, mem=pk, fam='xadd-align:packet'))
    cases.append(Case(B.lddw(4, 2 ** 64 - 1) + B.ldind('b', 4, 1) + B.EXIT, mem=pk, fam='ldind-wrap'))
    cases.append(Case(B.lddw(4, 2 ** 64 - 8) + B.ldind('dw', 4, 0x7fffffff) + B.EXIT, mem=pk, fam='ldind-wrap'))
    # backward local calls, deep recursion, return chains
    cases.append(Case(B.ja(2) + B.mov(0, 9) + B.EXIT + B.callx(-3) + B.alu('add', 0, imm=1) + B.EXIT, fam='call-back'))
    cases.append(Case(B.alu('add', 0, imm=1) + B.callx(-2) + B.EXIT, fam='call-depth', budget=100))
    cases.append(Case(B.callx(1) + B.EXIT + B.alu('add', 0, imm=1) + B.jmp('jgt', 0, 1, imm=5) + B.callx(-3) + B.EXIT, fam='call-depth', budget=400))
    # jumps / calls at the first and last positions
    cases.append(Case(B.ja(1) + B.EXIT + B.ja(-2), fam='last-ja'))
    cases.append(Case(B.mov(0, 3) + B.ja(0) + B.EXIT, fam='ja0'))
    # wide load as the target of nothing but fall-through; second halves with arbitrary register bytes
    cases.append(Case(B.insn(0x18, 3, 0, 0, -1) + B.insn(0, 0, 0, 0, -1) + B.movr(0, 3) + B.EXIT, fam='lddw'))
    # registers that do not exist (r11..r15) or may not be written (r10) in every supported opcode: refused by the verifier -- if a
    # changed verifier lets one through, running it shows the interpreter indexing its 11-entry register file out of range
    for o in sorted(SUPPORTED):
        for d in ((10, 11, 12, 13, 14, 15) if thorough else (10, 11, 15)):
            for sr in ((0, 1, 10, 11, 15) if thorough else (1, 11)):
                body = B.insn(o, d, sr, -8 if (o & 7) in (1, 2, 3) else 0, 16 if o in (0xd4, 0xdc) else 0)
                if o == 0x18:
                    body += B.insn(0, 0, 0, 0, 0)
                cases.append(Case(B.mov(0, 0) + B.mov(1, 0) + body + B.EXIT, mem=pk, fam='high-register'))
    # far jumps: over more than 32767 and 65535 instructions (program described, not spelled out)
    for n in ((33000, 66000) if thorough else (33000,)):
        p = B.ja(n) + B.mov(0, 1) * n + B.mov(0, 7) + B.ja(1) + B.EXIT + B.ja(-(n + 4))
        term = '(%s ++ rep %d %s ++ %s)' % (zhex(B.ja(n)), n, zhex(B.mov(0, 1)),
                                               zhex(B.mov(0, 7) + B.ja(1) + B.EXIT + B.ja(-(n + 4))))
        cases.append(Case(p, fam='far-jump', budget=50, mode=10, prog_term=term))
    return cases


def run(chk):
    res = vlib.prove(chk, C01.UNITS, C01.MODELS, 'C05', C01.PROOFS + ['theories/VerifierProofs.v', 'theories/InterpArmsAlu.v',
                     'theories/InterpArmsJmp.v', 'theories/InterpArmsMem.v', 'theories/InterpArmsCall.v', 'theories/MemLemmas.v'])
    found = False
    if res['model_ok']:
        binary = vlib.harness_build('debug')
        cases = gen_cases(chk)
        answers, bad, skipped = run_cases(chk, 'C05', cases, binary)
        outs, ops = {}, {}
        rejected = 0
        for c, a in zip(cases, answers):
            k = a['raw'].split()[0]
            k = k if k.startswith('ERR') or k.startswith('PANIC') else k.split(':')[0]
            outs[k] = outs.get(k, 0) + 1
            if a['raw'].startswith('ERR:verifier'):
                rejected += 1
            for j in range(0, len(c.prog), 8):
                ops[c.prog[j]] = ops.get(c.prog[j], 0) + 1
        chk.cov['evaluations'] = len(cases)
        chk.cov['distinct_nontrivial'] = len({c.prog for c, a in zip(cases, answers) if not a['raw'].startswith('ERR:verifier')})
        chk.cov['rule'] = ('random byte strings satisfying the verifier rules (every supported opcode, registers, offsets, immediates, '
                           'jump and local-call graphs, last instructions) run with packet/metadata present or absent under a budget, '
                           'plus directed overflow / recursion / far-jump programs; non-trivial = accepted by the real verifier; '
                           'distinct = distinct byte string')
        chk.cov['input_distribution'] = {'implementation_outcomes': outs, 'rejected_by_real_verifier': rejected,
                                         'distinct_opcodes_used': len(ops), 'not_compared': len(skipped)}
        chk.cov['samples'] = [{'request': cases[i].line()[:300], 'implementation': answers[i]['raw'][:160]} for i in (0, 1000, len(cases) - 1)]
        for c, a in zip(cases, answers):
            if a['status'] in (2, 9) and len(chk.violations) < 12:
                found = True
                chk.violation({'kind': 'counterexample', 'request': c.line()[:100000], 'implementation_answer': a['raw'][:300],
                               'family': c.fam, 'engine': 'interp', 'profile': 'debug',
                               'meaning': 'an accepted program made the interpreter panic / crash'})
        for i, cd in bad:
            c = cases[i]
            if answers[i]['status'] in (2, 9):
                continue
            if cd % 2 == 1:
                found = True
                if len(chk.violations) < 12:
                    chk.violation({'kind': 'counterexample', 'request': c.line()[:100000], 'implementation_answer': answers[i]['raw'][:300],
                                   'family': c.fam, 'meaning': 'model differs from implementation (tie B broken)'}, no_input=True)
    vlib.report_broken(chk, res, found)
    chk.cov['trusted_base'] = ['Coq 8.16.1 kernel + vm_compute', 'no axioms',
                               'translator tools/rs2v (units Interp, Verifier, Codec)', 'hand-written glue Interp.v/Stack.v/Helpers.v', 'harness/']
    chk.assumptions = ['usize is 64-bit', 'user-space layout: regions below 2^63, stack base >= 2^20', 'helpers are total functions returning u64']
    chk.cov['explanation'] = 'C05_no_crash: invariant preserved by every step of the regenerated interpreter for every accepted program'
