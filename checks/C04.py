"""C04 -- Cranelift-compiled code computes the same result as the interpreter."""
from checks import C03


def run(chk):
    C03.run(chk, engine='cl', prop='C04')
