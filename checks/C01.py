"""C01 -- the interpreter returns the value the eBPF ISA defines."""
import vlib
from checks import ebpf as B
from checks.interp_common import Case, run_cases, HEADER

UNITS = ['Opcodes', 'Codec', 'Verifier', 'Interp']
MODELS = ['theories/Cases.vo', 'theories/Isa.vo', 'theories/Interp.vo', 'theories/Stack.vo', 'theories/Helpers.vo']
PROOFS = ['theories/BitLemmas.v', 'theories/ListLemmas.v', 'theories/CodecProofs.v', 'theories/InterpProofs.v']

D7_OPS = {B.JMP_OPS[n] for n in ('jeq', 'jgt', 'jge', 'jlt', 'jle', 'jne')}


def has_d7(prog):
    """a 64-bit unsigned/equality jump with a negative immediate (known finding D7)"""
    k = 0
    while k + 8 <= len(prog):
        o = prog[k]
        imm = int.from_bytes(prog[k + 4:k + 8], 'little', signed=True)
        if o & 7 == 5 and (o >> 3) & 1 == 0 and (o >> 4) in D7_OPS and imm < 0:
            return True
        k += 16 if o == 0x18 else 8
    return False


def regs_pairs(rng):
    return [(0, 1), (3, 3), (6, 9), (9, 2), (rng.below(10), rng.below(11))]


def alu_cases(rng, thorough):
    out = []
    per = 40 if thorough else 10
    for w in (32, 64):
        for name in B.ALU_OPS:
            for use_reg in (False, True):
                if name == 'neg' and use_reg:
                    continue
                for _ in range(per):
                    d, s = rng.choice(regs_pairs(rng))
                    if s == 10:
                        s = 1
                    a = rng.choice(B.B64) if rng.chance(3, 4) else rng.next()
                    if use_reg:
                        b = rng.choice(B.B64) if rng.chance(3, 4) else rng.next()
                        if name in ('div', 'mod') and rng.chance(1, 6):
                            b = rng.choice([0, 2 ** 32, 2 ** 63])
                        if d == s:
                            b = a
                        p = B.load_const(d, a) + (B.load_const(s, b) if d != s else b'') + B.alu(name, d, src=s, w=w)
                    else:
                        b = rng.choice(B.BI32) if rng.chance(3, 4) else rng.below(2 ** 32) - 2 ** 31
                        p = B.load_const(d, a) + B.alu(name, d, imm=b, w=w)
                    p += B.movr(0, d) + B.EXIT
                    out.append(Case(p, fam='alu%d:%s:%s' % (w, name, 'reg' if use_reg else 'imm')))
    for be in (False, True):
        for width in (16, 32, 64):
            for _ in range(per):
                d = rng.below(10)
                a = rng.choice(B.B64) if rng.chance(1, 2) else rng.next()
                out.append(Case(B.load_const(d, a) + B.endian(be, d, width) + B.movr(0, d) + B.EXIT,
                                fam='endian:%s%d' % ('be' if be else 'le', width)))
    for _ in range(per * 2):
        d = rng.below(10)
        v = rng.choice(B.B64) if rng.chance(1, 2) else rng.next()
        out.append(Case(B.lddw(d, v) + B.movr(0, d) + B.EXIT, fam='lddw'))
    return out


def jmp_cases(rng, thorough):
    out = []
    per = 40 if thorough else 10
    for w in (64, 32):
        for name in B.JMP_OPS:
            for use_reg in (False, True):
                for _ in range(per):
                    d, s = rng.choice(regs_pairs(rng))
                    if s == 10:
                        s = 2
                    a = rng.choice(B.B64) if rng.chance(3, 4) else rng.next()
                    if use_reg:
                        b = rng.choice([a, a + 1, a - 1] + B.B64) & (2 ** 64 - 1)
                        if d == s:
                            b = a
                        pre = B.load_const(d, a) + (B.load_const(s, b) if d != s else b'')
                        j = B.jmp(name, d, 2, src=s, w=w)
                    else:
                        sa = a - 2 ** 64 if a >= 2 ** 63 else a
                        cands = [x for x in (sa, sa + 1, sa - 1, a & 0xffffffff, (a & 0xffffffff) - 2 ** 32) if -2 ** 31 <= x < 2 ** 31]
                        b = rng.choice(cands + B.BI32)
                        pre = B.load_const(d, a)
                        j = B.jmp(name, d, 2, imm=b, w=w)
                    p = pre + j + B.mov(0, 1) + B.EXIT + B.mov(0, 2) + B.EXIT
                    out.append(Case(p, fam='jmp%d:%s:%s' % (w, name, 'reg' if use_reg else 'imm')))
    # backward jumps and a counted loop
    for n in (1, 3, 10):
        p = B.mov(0, 0) + B.mov(1, n) + B.alu('add', 0, imm=7) + B.alu('add', 1, imm=-1) + B.jmp('jne', 1, -3, imm=0) + B.EXIT
        out.append(Case(p, fam='loop'))
    out.append(Case(B.ja(1) + B.EXIT + B.mov(0, 5) + B.ja(-3), fam='ja-back'))
    return out


def mem_cases(rng, thorough):
    out = []
    pk = bytes(range(1, 41))
    mb = bytes(range(0x80, 0x80 + 24))
    for sz in ('b', 'h', 'w', 'dw'):
        n = B.SIZE_BYTES[sz]
        for off in (0, 1, 3, 40 - n, 17):
            # packet via r1 (no metadata buffer)
            out.append(Case(B.ldx(sz, 0, 1, off) + B.EXIT, mem=pk, fam='ldx:' + sz))
            out.append(Case(B.movr(2, 1) + B.load_const(3, 0x1122334455667788) + B.stx(sz, 2, 3, off) + B.ldx('dw', 0, 1, (off // 8) * 8 if off + 8 <= 40 else 32) + B.EXIT,
                            mem=pk, fam='stx:' + sz))
            out.append(Case(B.st(sz, 1, off, -0x01020304) + B.ldx(sz, 0, 1, off) + B.EXIT, mem=pk, fam='st:' + sz))
            out.append(Case(B.ldabs(sz, off) + B.EXIT, mem=pk, mbuff=mb, fam='ldabs:' + sz))
            out.append(Case(B.mov(4, off) + B.ldind(sz, 4, 0) + B.EXIT, mem=pk, mbuff=mb, fam='ldind:' + sz))
            out.append(Case(B.mov(4, 1) + B.ldind(sz, 4, off - 1 if off else 0) + B.EXIT, mem=pk, fam='ldind:' + sz))
        # stack
        for off in (-n, -8, -512, -256 - n):
            out.append(Case(B.load_const(3, 0xa1b2c3d4e5f60718) + B.stx(sz, 10, 3, off) + B.ldx(sz, 0, 10, off) + B.EXIT, fam='stack:' + sz))
        # metadata buffer via r1
        out.append(Case(B.ldx(sz, 0, 1, 24 - n) + B.EXIT, mem=pk, mbuff=mb, fam='mbuff:' + sz))
        out.append(Case(B.st(sz, 1, 8, 0x55667788) + B.ldx('dw', 0, 1, 8) + B.EXIT, mem=pk, mbuff=mb, fam='mbuff:' + sz))
    for sz in ('w', 'dw'):
        n = B.SIZE_BYTES[sz]
        for add in (1, 2 ** 32 - 1, 2 ** 64 - 1, 0x100000001):
            out.append(Case(B.load_const(3, add) + B.xadd(sz, 1, 3, 8) + B.xadd(sz, 1, 3, 8) + B.ldx('dw', 0, 1, 8) + B.EXIT, mem=pk, fam='xadd:' + sz))
            out.append(Case(B.load_const(3, add) + B.xadd(sz, 10, 3, -16) + B.ldx('dw', 0, 10, -16) + B.EXIT, fam='xadd:' + sz))
    return out


def random_program(rng, n):
    """straight-line code with forward jumps and a final exit; registers initialised first"""
    body = []
    for r in range(10):
        body.append(B.load_const(r, rng.choice(B.B64) if rng.chance(1, 2) else rng.next()))
    for k in range(1, 9):
        body.append(B.stx('dw', 10, k, -8 * k))      # every stack slot used below is written first
    k = 0
    while k < n:
        t = rng.below(10)
        d, s = rng.below(10), rng.below(10)
        if t < 5:
            name = rng.choice(list(B.ALU_OPS))
            w = rng.choice((32, 64))
            if name == 'neg':
                body.append(B.alu('neg', d, w=w))
            elif rng.chance(1, 2):
                body.append(B.alu(name, d, src=s, w=w))
            else:
                body.append(B.alu(name, d, imm=rng.choice(B.BI32), w=w))
        elif t < 8:
            name = rng.choice(list(B.JMP_OPS))
            skip = rng.below(min(3, n - k))
            w = rng.choice((32, 64))
            if rng.chance(1, 2):
                body.append(B.jmp(name, d, skip, src=s, w=w))
            else:
                imm = rng.choice(B.BI32)
                if w == 64 and imm < 0 and B.JMP_OPS[name] in D7_OPS:
                    imm = -imm - 1
                body.append(B.jmp(name, d, skip, imm=imm, w=w))
        elif t == 8:
            body.append(B.endian(rng.chance(1, 2), d, rng.choice((16, 32, 64))))
        else:
            off = -8 * (1 + rng.below(8))
            body.append(B.stx('dw', 10, s, off))
            body.append(B.ldx(rng.choice(('b', 'h', 'w', 'dw')), d, 10, off))
        k += 1
    # fold everything into r0
    for r in range(1, 10):
        body.append(B.alu('xor', 0, src=r))
    # forward jumps may skip up to 2 instructions past the loop body: pad
    body.append(B.alu('add', 0, imm=1))
    body.append(B.alu('add', 0, imm=1))
    return b''.join(body) + B.EXIT


def gen_cases(chk):
    rng = vlib.Rng(chk.seed).fork('C01')
    thorough = chk.tier == 'thorough'
    cases = alu_cases(rng, thorough) + jmp_cases(rng, thorough) + mem_cases(rng, thorough)
    for _ in range(3000 if thorough else 300):
        cases.append(Case(random_program(rng, 4 + rng.below(20)), fam='random', budget=2000))
    return cases


def run(chk):
    res = vlib.prove(chk, UNITS, MODELS, 'C01', PROOFS)
    found = False
    if res['model_ok']:
        binary = vlib.harness_build('debug')
        cases = gen_cases(chk)
        answers, bad, skipped = run_cases(chk, 'C01', cases, binary)
        fams, outs = {}, {}
        for c, a in zip(cases, answers):
            f = c.fam.split(':')[0]
            fams[f] = fams.get(f, 0) + 1
            outs[a['raw'].split()[0].split(':')[0]] = outs.get(a['raw'].split()[0].split(':')[0], 0) + 1
        chk.cov['evaluations'] = len(cases)
        chk.cov['distinct_nontrivial'] = len({(c.prog, c.mem, c.mbuff) for c, a in zip(cases, answers) if a['status'] in (0, 1)})
        chk.cov['rule'] = ('per-opcode directed programs (operands from the 64-bit / 32-bit boundary grids, register pairs incl. dst = src), '
                           'every load/store/xadd width at region offsets, counted loops, seeded random straight-line programs with '
                           'forward jumps; non-trivial = the program returned a value or an error after executing at least one instruction; '
                           'distinct = distinct (program, packet, metadata)')
        chk.cov['input_distribution'] = {'families': fams, 'implementation_outcomes': outs, 'not_compared': len(skipped)}
        chk.cov['samples'] = [{'request': cases[i].line()[:300], 'implementation': answers[i]['raw'][:200]} for i in (0, 500, len(cases) - 1)]
        known = dict(vlib.known_findings('C01'))
        badfam = {}
        chk.cov['disagreements_by_family'] = badfam
        for i, cd in bad:
            c = cases[i]
            if cd >= 2 and cd != 3 and has_d7(c.prog) and 'D7-unsigned-jmp-imm-zero-extended' in known:
                chk.known('D7-unsigned-jmp-imm-zero-extended')
                continue
            found = True
            badfam[c.fam.split(':')[0] + ('/tie' if cd % 2 else '') + ('/spec' if cd >= 2 else '')] = badfam.get(c.fam.split(':')[0] + ('/tie' if cd % 2 else '') + ('/spec' if cd >= 2 else ''), 0) + 1
            if len(chk.violations) < 12:
                chk.violation({'kind': 'counterexample', 'request': c.line(), 'implementation_answer': answers[i]['raw'],
                               'family': c.fam, 'engine': 'interp', 'profile': 'debug',
                               'meaning': ('interpreter result differs from the ISA specification' if cd >= 2 else '') +
                                          (' model differs from implementation (tie B broken)' if cd % 2 == 1 else '')},
                              no_input=(cd == 1))
    vlib.report_broken(chk, res, found)
    chk.cov['trusted_base'] = ['Coq 8.16.1 kernel + vm_compute', 'no axioms',
                               'translator tools/rs2v (unit Interp: check_mem, register init, the whole instruction loop are regenerated)',
                               'hand-written glue theories/Interp.v, Stack.v, Helpers.v (tied by the correspondence)', 'harness/']
    chk.assumptions = ['usize is 64-bit', 'debug-profile arithmetic (overflow = panic) is what the model describes']
    chk.cov['explanation'] = 'C01 theorems over the regenerated interpreter model; correspondence of model, ISA spec and real interpreter'
