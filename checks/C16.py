"""C16 -- assembling the disassembler's output reproduces the program."""
import vlib
from vlib import zhex
from checks import asm_common as A
from checks import C15

UNITS = ['Opcodes', 'Codec', 'Disasm', 'Asm']
MODELS = ['theories/Cases.vo', 'theories/RoundTrip.vo']
PROOFS = ['theories/AsmProofs.v', 'theories/AsmEncode.v', 'theories/DisasmProofs.v', 'theories/CodecProofs.v', 'theories/RoundTripProofs.v', 'theories/NumText.v', 'theories/TextParse.v', 'theories/RenderText.v', 'theories/RoundTripFinal.v']

HEADER = '''From Coq Require Import ZArith List Bool String.
From RbpfV Require Import MachInt Ebpf Cases Fmt DisasmDefs DisasmSpec AsmDefs AsmParser AsmModel RoundTrip.
Import ListNotations.
Open Scope Z_scope.

Definition in_domain (p : list Z) : bool :=
  (len p mod 8 =? 0) && match hl_list (decode_all p) with Some _ => true | None => false end.

(* code 1: model <> implementation; code 2: implementation <> specification *)
Definition check16 (c : list Z * outcome (list Z)) : Z :=
  let '(p, o) := c in
  let model_ok := res_matches list_eqb (roundtrip p) o in
  let spec_ok :=
    if in_domain p then
      let l := decode_all p in
      let cz := flat_map spec_encode (canon l) in
      if all_expressible l && list_eqb cz p
      then match o with OOk q => list_eqb q p | _ => false end
      else match o with OOk q => list_eqb q cz | OErr => true | OPanic => false end
    else true in
  (if model_ok then 0 else 1) + (if spec_ok then 0 else 2).
'''

EXPRESSIBLE = [o for o in C15.SUPPORTED if o not in (0x8d, 0xc3, 0xdb)]


def gen_progs(chk):
    rng = vlib.Rng(chk.seed).fork('C16')
    thorough = chk.tier == 'thorough'
    progs = []

    def canon_insn(opc):
        """an expressible instruction with unused fields zero and a non-negative immediate"""
        cls = opc & 7
        d, s = rng.below(16), rng.below(16)
        off = rng.choice(A.OFFS) if rng.chance(1, 2) else rng.below(65536) - 32768
        off = max(-32768, min(32767, off))
        imm = rng.choice([0, 1, 9, 10, 15, 16, 255, 256, 0xffff, 0x10000, 0x12345678, 0x7fffffff]) if rng.chance(1, 2) else rng.below(2 ** 31)
        if opc == 0x18:
            v = rng.choice(A.IMM64) % 2 ** 64 if rng.chance(1, 2) else rng.below(2 ** 64)
            return C15.slot(opc, d, 0, 0, v & 0xffffffff) + C15.slot(0, 0, 0, 0, v >> 32)
        if opc in (0xd4, 0xdc):
            return C15.slot(opc, d, 0, 0, rng.choice([16, 32, 64]))
        if opc == 0x95:
            return C15.slot(opc, 0, 0, 0, 0)
        if opc == 0x85:
            return C15.slot(opc, 0, rng.below(2), 0, imm)
        if opc == 0x05:
            return C15.slot(opc, 0, 0, off, 0)
        if opc in (0x84, 0x87):
            return C15.slot(opc, d, 0, 0, 0)
        if cls in (4, 7):
            return C15.slot(opc, d, s, 0, 0) if opc & 8 else C15.slot(opc, d, 0, 0, imm)
        if cls in (5, 6):
            return C15.slot(opc, d, s, off, 0) if opc & 8 else C15.slot(opc, d, 0, off, imm)
        if cls == 0:                       # ld abs / ind
            return C15.slot(opc, 0, s if (opc & 0xe0) == 0x40 else 0, 0, imm)
        if cls == 1:                       # ldx
            return C15.slot(opc, d, s, off, 0)
        if cls == 2:                       # st imm
            return C15.slot(opc, d, 0, off, imm)
        if cls == 3:                       # stx
            return C15.slot(opc, d, s, off, 0)
        raise AssertionError(hex(opc))

    def any_insn(opc):
        d, s = rng.below(16), rng.below(16)
        if opc == 0x85:
            s = rng.below(2)
        b = C15.slot(opc, d, s, rng.choice(A.OFFS[1:-3]) if rng.chance(1, 2) else 0, rng.choice(C15.IMMS))
        if opc == 0x18:
            b += C15.slot(rng.below(256) if rng.chance(1, 3) else 0, rng.below(16) if rng.chance(1, 3) else 0, 0, rng.choice([0, 0, 5]), rng.choice(C15.IMMS))
        return b
    progs.append((b'', 'empty'))
    for opc in EXPRESSIBLE:
        for _ in range(12 if thorough else 4):
            progs.append((canon_insn(opc), 'canonical-single'))
        for _ in range(6 if thorough else 2):
            progs.append((any_insn(opc), 'noncanonical-single'))
    for _ in range(1500 if thorough else 300):
        progs.append((b''.join(canon_insn(rng.choice(EXPRESSIBLE)) for _ in range(1 + rng.below(10))), 'canonical-program'))
    for _ in range(600 if thorough else 120):
        progs.append((b''.join(canon_insn(rng.choice(EXPRESSIBLE)) if rng.chance(3, 4) else any_insn(rng.choice(C15.SUPPORTED))
                               for _ in range(1 + rng.below(8))), 'mixed-program'))
    for opc in (0x8d, 0xc3, 0xdb):
        progs.append((any_insn(opc), 'not-expressible'))
    for v in (8, 0, 128, -16):
        progs.append((C15.slot(0xd4, 1, 0, 0, v), 'not-expressible'))
    return progs


def run(chk):
    res = vlib.prove(chk, UNITS, MODELS, 'C16', PROOFS)
    found = False
    if res['model_ok']:
        binary = vlib.harness_build('debug')
        pg = gen_progs(chk)
        dis = vlib.harness_run(binary, ['disasm %s' % (p.hex() or '-') for p, _ in pg])
        texts, keep = [], []
        for (p, f), d in zip(pg, dis):
            if not d.startswith('OK'):
                continue
            descs = [bytes.fromhex(e.split()[6]).decode('utf-8') for e in d.split(' | ')[1:]]
            texts.append('\n'.join(descs))
            keep.append((p, f))
        answers = vlib.harness_run(binary, ['asm %s' % (t.encode('utf-8').hex() or '-') for t in texts])
        terms = []
        for (p, f), a in zip(keep, answers):
            terms.append('(%s, %s)' % (zhex(p), A.outcome_term(a) or 'OPanic'))
        bad, errors = vlib.coq_eval('C16', HEADER, terms, 'check16', shard_size=120)
        if errors:
            raise vlib.Broken('model evaluation failed: ' + errors[0])
        fams, outs = {}, {}
        same = 0
        for (p, f), a in zip(keep, answers):
            fams[f] = fams.get(f, 0) + 1
            outs[a.split()[0]] = outs.get(a.split()[0], 0) + 1
            if a.startswith('OK') and (bytes.fromhex(a.split()[1]) if len(a.split()) > 1 and a.split()[1] != '-' else b'') == p:
                same += 1
        # the canonical families must reproduce the program exactly (independent of the Coq specification)
        bad = dict(bad)
        for i, ((p, f), a) in enumerate(zip(keep, answers)):
            if f.startswith('canonical') or f == 'empty':
                got = a.split()
                if not (got[0] == 'OK' and (bytes.fromhex(got[1]) if len(got) > 1 and got[1] != '-' else b'') == p):
                    bad[i] = bad.get(i, 0) | 8
        chk.cov['evaluations'] = len(keep)
        chk.cov['distinct_nontrivial'] = len({p for p, _ in keep if p})
        chk.cov['reproduced_exactly'] = same
        chk.cov['rule'] = ('programs generated by fields: every assembler-expressible opcode in canonical form (unused fields zero, 32-bit immediates '
                           'non-negative, any 64-bit lddw value, all registers, offsets incl. -32768) alone and in programs of 1..10 instructions; '
                           'non-canonical variants (junk in unused fields, negative immediates, second lddw slot with junk); opcodes without mnemonic; '
                           'each: real disassemble -> join -> real assemble, compared with the composed model and the canonical-form specification')
        chk.cov['input_distribution'] = {'families': fams, 'assembler_outcomes': outs}
        chk.cov['samples'] = [{'program': keep[i][0].hex(), 'text': texts[i][:120], 'assembled': answers[i][:120]} for i in (1, len(keep) // 2)]
        for i in sorted(bad)[:10]:
            found = True
            cd = bad[i]
            chk.violation({'kind': 'counterexample', 'program': keep[i][0].hex(), 'disassembly': texts[i][:600], 'reassembled': answers[i][:600],
                           'family': keep[i][1], 'code': cd,
                           'model': vlib.coq_show('C16', HEADER, 'roundtrip %s' % zhex(keep[i][0]))[:300],
                           'meaning': ('assembling the disassembly does not give the program / its canonical form' if cd & 10 else
                                       'model differs from implementation (tie B broken)')}, no_input=(cd == 1))
    vlib.report_broken(chk, res, found)
    chk.cov['trusted_base'] = ['Coq 8.16.1 kernel + vm_compute', 'no axioms', 'translator tools/rs2v (units Disasm, Asm, Codec, Opcodes)',
                               'theories/AsmParser.v (hand model, tie B)', 'theories/RoundTrip.v canonical-form specification', 'harness/']
    chk.assumptions = ['theorems cover every renderable program (all opcodes except tail_call and byte swaps of width other than 16/32/64; for those the '
                       'rejection of the text is evaluated, not proved)', 'the parser is the hand model AsmParser.v (tie B)']
    chk.cov['explanation'] = ('theorem C16_roundtrip: for every program in the domain, of any length and field values, the composed model returns the canonical '
                              'form when every instruction is expressible and an error otherwise (corollaries: exact reproduction; accepted => canonical); '
                              'correspondence: real disassemble+assemble = composed model = canonical-form specification on generated programs')
