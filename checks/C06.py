"""C06 -- the default verifier accepts exactly the well-formed programs."""
import vlib
from vlib import zhex

HEADER = '''From Coq Require Import ZArith List Bool.
From RbpfV Require Import MachInt Ebpf Cases WellFormed Verifier.
Import ListNotations.
Open Scope Z_scope.

(* expected: 0 = accepted, 1 = error value, 2 = panic *)
Definition model_class (p : list Z) : Z :=
  match check_model p with Ok _ => 0 | Err _ => 1 | Panic _ => 2 | OutOfFuel => 3 end.
Definition spec_class (p : list Z) : Z := if wellformedb p then 0 else 1.
Definition check (c : list Z * Z) : Z :=
  let '(p, o) := c in
  (if model_class p =? o then 0 else 1) + (if spec_class p =? o then 0 else 2).
'''

EXIT = bytes([0x95, 0, 0, 0, 0, 0, 0, 0])
MOV = bytes([0xb7, 0, 0, 0, 0, 0, 0, 0])
REGB = [0x00, 0x0a, 0x0b, 0xa0, 0xb0, 0x9a, 0xaa, 0xff, 0x19]
OFFS = [-32768, -3, -2, -1, 0, 1, 2, 3, 32767]
IMMS = [0, 1, 16, 32, 64, -1, 2, -2, 3, -3, 2 ** 31 - 1, -2 ** 31]


def slot(opc, regs=0, off=0, imm=0):
    return bytes([opc & 255, regs & 255]) + (off & 0xffff).to_bytes(2, 'little') + (imm & 0xffffffff).to_bytes(4, 'little')


def gen_cases(chk):
    rng = vlib.Rng(chk.seed).fork('C06')
    thorough = chk.tier == 'thorough'
    progs = []

    def add(fam, p):
        progs.append((fam, bytes(p)))
    # F2: single slots, every opcode
    for o in range(256):
        add('single', slot(o))
        add('single', slot(o, rng.choice(REGB), rng.choice(OFFS), rng.choice(IMMS)))
    # F1: [slot; exit] for every opcode x register byte x (off, imm) samples
    for o in range(256):
        for rb in REGB:
            for _ in range(4 if thorough else 2):
                add('slot+exit', slot(o, rb, rng.choice(OFFS), rng.choice(IMMS)) + EXIT)
        for off in OFFS:
            add('slot+exit', slot(o, 0x10, off, 0) + EXIT)
        for imm in IMMS:
            add('slot+exit', slot(o, 0x10, 0, imm) + EXIT)
    # F3: last instruction kinds
    for o in range(256):
        add('last', MOV + slot(o))
        add('last', MOV + slot(o, 0x10, -2, 0))
        add('last', slot(0x18) + slot(o))
    # F4: wide loads
    for y in (0, 1, 0x18, 0x95, 0xb7, 0x05):
        for rb in (0x00, 0x09, 0x0a, 0x0b, 0xa0, 0xb0):
            add('lddw', slot(0x18, rb, 0, 5) + slot(y, 0, 0, 7) + EXIT)
            add('lddw', slot(0x18, rb, 0, 5) + slot(y, rng.below(256), 1, 7) + EXIT)
    add('lddw', MOV + slot(0x18))
    add('lddw', slot(0x18) + slot(0) + slot(0x18) + slot(0) + EXIT)
    # F5: jumps in a program containing a wide load:  [J; lddw; 0; mov; exit] and J at other positions
    jumps = [0x05] + [c + (op << 4) + s for c in (5, 6) for op in (1, 2, 3, 4, 5, 6, 7, 0xa, 0xb, 0xc, 0xd) for s in (0, 8)]
    for j in jumps:
        for off in (-5, -4, -3, -2, -1, 0, 1, 2, 3, 4, 5, 32767, -32768):
            add('jump', slot(j, 0x10, off) + slot(0x18) + slot(0) + MOV + EXIT)
            add('jump', MOV + slot(0x18) + slot(0) + slot(j, 0x21, off) + EXIT)
    # F6: calls
    for src in (0, 1, 2, 10, 15):
        for imm in (-5, -4, -3, -2, -1, 0, 1, 2, 3, 4, 2 ** 31 - 1, -2 ** 31, 0x10000):
            add('call', slot(0x85, src << 4, 0, imm) + slot(0x18) + slot(0) + MOV + EXIT)
            add('call', MOV + slot(0x18) + slot(0) + slot(0x85, src << 4, rng.choice(OFFS), imm) + EXIT)
    for rb in REGB:
        add('call', slot(0x85, rb, 0, 1) + EXIT + EXIT)
    # F7: length classes
    for ln in (0, 1, 2, 7, 9, 12, 15, 17):
        add('length', (EXIT * 3)[:ln])
    # F9: context independence -- the verdict on an instruction does not depend on what precedes it: every opcode with the register
    # bytes on the r10 / r11 boundaries after one valid instruction of each class (store, atomic add, wide load, jump, call, swap, ...)
    contexts = [slot(0x7b, 0x1a, -8), slot(0x72, 0x0a, -1, 5), slot(0xdb, 0x1a, -8, 0), slot(0x18, 0x01, 0, 5) + slot(0), slot(0x05),
                slot(0x15, 0x01, 0, 0), slot(0x85, 0, 0, 1), slot(0xdc, 0x01, 0, 16), MOV, slot(0x61, 0xa0, -4)]
    for o in range(256):
        for rb in (0x0a, 0xa0, 0x0b, 0x19):
            for cx in (contexts if thorough else contexts[(o + rb) % 2::2]):
                add('context', cx + slot(o, rb, 0, 0 if o not in (0xd4, 0xdc) else 16) + EXIT)
    valid_ops = [o for o in range(256)]
    for _ in range(40000 if thorough else 5000):
        n = 1 + rng.below(6)
        p = b''
        for k in range(n):
            if rng.chance(1, 8):
                p += bytes(rng.below(256) for _ in range(8))
            else:
                o = rng.choice(valid_ops if rng.chance(1, 6) else [0xb7, 0x07, 0x0f, 0x18, 0, 0x61, 0x62, 0x63, 0x7b, 0xc3, 0xdb, 0xd4, 0xdc,
                                                                   0x05, 0x15, 0x1d, 0x55, 0x65, 0x6d, 0x16, 0x1e, 0x85, 0x8d, 0x95, 0x95])
                rb = rng.choice(REGB) if rng.chance(1, 3) else (rng.below(11) | (rng.below(11) << 4))
                off = rng.choice(OFFS) if rng.chance(1, 3) else rng.below(2 * n + 2) - n - 1
                imm = rng.choice(IMMS) if rng.chance(1, 2) else rng.below(2 * n + 2) - n - 1
                p += slot(o, rb, off, imm)
        if rng.chance(3, 4):
            p = p[:-8] + (EXIT if rng.chance(3, 4) else slot(0x05, 0, -rng.below(n + 1) - 1))
        add('random', p)
    return progs


def run(chk):
    res = vlib.prove(chk, ['Opcodes', 'Codec', 'Verifier'],
                     ['theories/Cases.vo', 'theories/WellFormed.vo', 'theories/Verifier.vo'],
                     'C06', ['theories/BitLemmas.v', 'theories/ListLemmas.v', 'theories/CodecProofs.v', 'theories/VerifierProofs.v'])
    found = False
    if res['model_ok']:
        binary = vlib.harness_build('debug')
        progs = gen_cases(chk)
        answers = vlib.harness_run(binary, ['verify %s' % (p.hex() if p else '-') for _, p in progs])
        cls = {'OK': 0, 'ERR': 1}
        terms = []
        for (fam, p), a in zip(progs, answers):
            o = cls.get(a.split()[0], 2)
            terms.append('(%s, %d)' % (zhex(p), o))
        bad, errors = vlib.coq_eval('C06', HEADER, terms, 'check')
        if errors:
            raise vlib.Broken('model evaluation failed: ' + errors[0])
        fams, outs = {}, {}
        distinct = set()
        for (fam, p), a in zip(progs, answers):
            fams[fam] = fams.get(fam, 0) + 1
            outs[a.split()[0]] = outs.get(a.split()[0], 0) + 1
            if len(p) >= 8:
                distinct.add(p)
        chk.cov['evaluations'] = len(progs)
        chk.cov['distinct_nontrivial'] = len(distinct)
        chk.cov['rule'] = ('byte strings from directed families (every opcode byte as single / before exit / as last slot, register bytes, '
                           'offsets and immediates around the bounds, wide loads, every jump opcode x displacement around program bounds and '
                           'wide loads, calls, length classes, every opcode after one valid instruction of each class) + seeded random programs of 1..6 slots; distinct = distinct byte string, '
                           'non-trivial = at least one whole slot')
        chk.cov['input_distribution'] = {'families': fams, 'implementation_outcomes': outs}
        chk.cov['samples'] = [{'program': progs[i][1].hex(), 'family': progs[i][0], 'implementation': answers[i]}
                              for i in (0, 700, len(progs) // 2, len(progs) - 1)]
        for i, cd in bad[:10]:
            found = True
            p = progs[i][1]
            model = vlib.coq_show('C06', HEADER, '(model_class %s, spec_class %s)' % (zhex(p), zhex(p)))
            chk.violation({'kind': 'counterexample', 'request': 'verify %s' % p.hex(), 'implementation_answer': answers[i],
                           'model_class_and_spec_class(0=accept,1=error,2=panic)': model, 'family': progs[i][0],
                           'meaning': ('verifier verdict differs from the well-formedness specification' if cd >= 2 else
                                       'model differs from implementation although the specification is met (tie B broken)')},
                          no_input=(cd == 1))
        # programs at the size limit, too long to spell out or to evaluate in Coq (the theorem covers them; this is the search for a
        # concrete input when it breaks): prefix ++ MOV * count ++ suffix, verdict expected by the property's own wording
        M = 1000000
        long_cases = [
            (b'', M - 2, EXIT, 'OK', '999,999 instructions ending in exit'),
            (b'', M - 1, EXIT, 'OK', 'exactly 1,000,000 instructions ending in exit'),
            (b'', M - 1, slot(0x05, 0, -3), 'OK', 'exactly 1,000,000 instructions ending in a backward ja'),
            (b'', M, EXIT, 'ERR', '1,000,001 instructions'),
            (b'', M - 1, EXIT + b'\0\0\0\0', 'ERR', '1,000,000 instructions and 4 stray bytes'),
            (b'', M - 1, MOV, 'ERR', '1,000,000 instructions not ending in exit / ja'),
            (slot(0x85, 0x10, 0, M - 2) + EXIT, M - 3, EXIT, 'OK', 'local call to the last of 1,000,000 instructions'),
            (slot(0x85, 0x10, 0, M - 1) + EXIT, M - 3, EXIT, 'ERR', 'local call just past the last of 1,000,000 instructions'),
            (slot(0x85, 0x10, 0, M - 3) + EXIT, M - 4, EXIT, 'OK', 'local call to the last of 999,999 instructions'),
        ]
        long_lines = ['verifyrep %s %s %d %s' % (pre.hex() or '-', MOV.hex(), cnt, suf.hex()) for pre, cnt, suf, _, _ in long_cases]
        for (pre, cnt, suf, want, what), line, a in zip(long_cases, long_lines, vlib.harness_run(binary, long_lines)):
            if a.split()[0] != want:
                found = True
                chk.violation({'kind': 'counterexample', 'request': line, 'implementation_answer': a[:200], 'expected': want, 'family': 'size-limit',
                               'meaning': 'verifier verdict differs from the well-formedness specification at the 1,000,000-instruction limit: ' + what})
        chk.cov['evaluations'] += len(long_cases)
        chk.cov['input_distribution']['families']['size-limit'] = len(long_cases)
    vlib.report_broken(chk, res, found)
    chk.cov['trusted_base'] = ['Coq 8.16.1 kernel + vm_compute', 'no axioms',
                               'translator tools/rs2v (units Verifier, Codec, Opcodes: whole of verifier.rs is regenerated)',
                               'harness/ (Rust), which reaches the private verifier through EbpfVmMbuff::new']
    chk.assumptions = ['usize is 64-bit']
    chk.cov['explanation'] = 'C06_* theorems: generated verifier model = well-formedness specification for every byte string; never panics'
